"""C17 — Instruction sections round-trip and evolve propose captures drift faithfully."""
import os, re, json, concurrent.futures
from vlib.common import *
from vlib.common import run as sh_run
from vlib import coqrun as cq
from vlib.impl import Avh, Sandbox, snap_diff
from vlib import world

HEADER = 'From AP Require Import Corr.Check_C17.\nOpen Scope N_scope.\n'

PREFIX = '<!-- agentpack:module='
END = '<!-- /agentpack -->'

# ---------------------------------------------------------------- Rust string semantics in Python

WS = set([9, 10, 11, 12, 13, 32, 0x85, 0xA0, 0x1680, 0x2028, 0x2029, 0x202F, 0x205F, 0x3000] + list(range(0x2000, 0x200B)))

def rtrim(x):
    """str::trim — Unicode White_Space (Python's str.strip() strips a different set)."""
    i, j = 0, len(x)
    while i < j and ord(x[i]) in WS: i += 1
    while j > i and ord(x[j - 1]) in WS: j -= 1
    return x[i:j]

def split_inclusive(x):
    out = []; cur = ''
    for ch in x:
        cur += ch
        if ch == '\n':
            out.append(cur); cur = ''
    if cur: out.append(cur)
    return out

def start_marker_id(line):
    t = rtrim(line)
    if not t.startswith(PREFIX) or not t.endswith('-->'): return None
    a = t[len(PREFIX):]
    if not a.endswith('-->'): return None
    raw = rtrim(a[:-3])
    return raw or None

def marker_like(line):
    return rtrim(line) == END or start_marker_id(line) is not None

def ensure_nl(t): return t if t.endswith('\n') else t + '\n'
def text_ok(t): return not any(marker_like(l) for l in split_inclusive(ensure_nl(t)))
def body_ok(b): return (b == '' or b.endswith('\n')) and not any(marker_like(l) for l in split_inclusive(b))
def id_ok(i): return '\n' not in i and rtrim(i) == i and i != ''
def raw_section(i, body): return PREFIX + i + ' -->\n' + body + END

def read_seps():
    """(target, separator) table from the regenerated Gen/Tables.v"""
    src = open(os.path.join(COQ, 'Gen', 'Tables.v'), encoding='utf-8').read()
    m = re.search(r'Definition instructions_join_seps : list \(str \* str\) :=\s*\[(.*?)\]\.\n', src, re.S)
    if not m: raise InfraError('instructions_join_seps missing from Gen/Tables.v')
    out = []
    for a, b in re.findall(r'\(\[([\d;]*)\], \[([\d;]*)\]\)', m.group(1)):
        dec = lambda z: ''.join(chr(int(v)) for v in z.split(';') if v)
        out.append((dec(a), dec(b)))
    return out


# ---------------------------------------------------------------- capped reporting
_SEEN = {}
def report(ctx, what, case, no_input=False, cap=3):
    """at most [cap] replay files per kind of violation; the rest is counted in the notes"""
    key = re.sub(r'/[^ ]+', '<path>', what)[:80]
    n = _SEEN.get(key, 0) + 1; _SEEN[key] = n
    if n <= cap:
        ctx.violation(what, case, no_input=no_input)
    elif n == cap + 1:
        ctx.notes.append('further violations of kind "%s" are counted but not written as replays' % key)

def flush_report_counts(ctx):
    for k, n in _SEEN.items():
        if n > 3: ctx.notes.append('%d violations of kind "%s"' % (n, k))

# ---------------------------------------------------------------- generators

ID_CHARS = 'abcxyz019:_-./=> é中'
def gen_id(rng, bad_ok=True):
    k = rng.random()
    base = rng.choice(['instructions:', 'instructions:', 'i:', '', 'm/']) + ''.join(rng.choice(ID_CHARS) for _ in range(rng.randrange(1, 7)))
    base = rtrim(base) or 'q'
    if k < 0.72 or not bad_ok:
        return rng.choice([base, base, base, base + ' --> b', base + '\ra', 'a\u200bb' + base[:2], base.replace(':', ' : ')])
    return rng.choice([base + ' ', ' ' + base, base + '\u00a0', '\t' + base, base + '\u3000', base + '\n', 'a\nb', base + ' -->\nfoo',
                       '', ' ', '\u2003', base + '\r', '\u0085' + base])

PLAIN = ['# one', 'two', 'x', '- item', 'é中 text', '', '', '   ', '\u00a0', '\u2003\u3000', 'a\tb', '---', '***', '<!-- comment -->', 'tail \u0085']
LOOKALIKE = ['<!-- agentpack:module= -->', '<!-- agentpack:module=x --', '<!-- /agentpack-->', '<!-- /agentpack --> trailing',
             'x <!-- /agentpack -->', '<!--agentpack:module=x -->', '<!-- AGENTPACK:module=x -->', '\u200b<!-- /agentpack -->',
             '\x1c<!-- /agentpack -->', '<!-- agentpack:module=-->', '<!-- /agentpack -- >', '<!-- agentpack:modul=x -->',
             '\ufeff<!-- agentpack:module=x -->', '<!-- /agentpack -->\u200b', '<!-- agentpack:module=x -->x']
MARKERS = ['<!-- /agentpack -->', '  <!-- /agentpack -->\t', '\u00a0<!-- /agentpack -->\u3000', '<!-- agentpack:module=x -->',
           ' <!-- agentpack:module=  y z  -->', '<!-- agentpack:module=a --> b -->', '<!-- agentpack:module=-->-->',
           '\t<!-- agentpack:module=instructions:one -->\u2003', '<!-- /agentpack -->\r', '\u0085<!-- /agentpack -->',
           '<!-- agentpack:module=\u00a0q\u00a0-->']

def gen_text(rng, allow_marker=True, force_nl=False, nonempty=False):
    n = rng.choice([0, 1, 1, 2, 2, 3]) if not nonempty else rng.choice([1, 1, 2, 3])
    lines = []
    for _ in range(n):
        k = rng.random()
        if k < 0.70: lines.append(rng.choice(PLAIN))
        elif k < 0.90 or not allow_marker: lines.append(rng.choice(LOOKALIKE))
        else: lines.append(rng.choice(MARKERS))
    t = ''
    for i, l in enumerate(lines):
        eol = rng.choice(['\n', '\n', '\n', '\r\n'])
        if i == len(lines) - 1 and not force_nl and rng.random() < 0.3:
            eol = rng.choice(['', '', '\r'])
        t += l + eol
    if force_nl and not t.endswith('\n'): t += '\n'
    if nonempty and t == '': t = 'z\n'
    return t

def gen_parts(rng, bad=True):
    n = rng.choice([1, 2, 2, 2, 3, 3, 4])
    parts = []
    for _ in range(n):
        parts.append((gen_id(rng, bad_ok=bad), gen_text(rng, allow_marker=bad)))
    if bad and n > 1 and rng.random() < 0.04:
        parts[-1] = (parts[0][0], parts[-1][1])       # duplicate id
    elif len({p[0] for p in parts}) < n:                # accidental duplicates: make distinct
        parts = [(p[0] + str(i), p[1]) for i, p in enumerate(parts)]
    return parts

def c_parts(parts):
    return cq.clist([cq.cpair(cq.cstr(i), cq.cstr(t)) for i, t in parts])

def classify_err(msg):
    if msg.startswith('duplicate module section'): return 1
    if msg.startswith('nested module section marker'): return 2
    if msg.startswith('unterminated module section'): return 3
    return 0

def obs_parse_term(res):
    """avh markers_parse answer -> Coq term of type obs_parse (+ python form)"""
    if 'ok' in res:
        items = sorted(res['ok'].items(), key=lambda kv: kv[0].encode('utf-8'))
        return '(inl %s)' % c_parts(items)
    return '(inr %d)' % classify_err(res['err'])

def parts_classes(parts):
    cl = set()
    ids = [p[0] for p in parts]
    if len(set(ids)) != len(ids): cl.add('dup')
    for i, t in parts:
        if not id_ok(i): cl.add('K17h')
        if not text_ok(t): cl.add('K17a')
        if not t.endswith('\n'): cl.add('K17b')
    return cl

# ---------------------------------------------------------------- pure-function streams

def roundtrip_oracle(ctx, parts, res, sep, stream, extra=None):
    """property predicate on the implementation's own answer"""
    cl = parts_classes(parts)
    exact = {i: t for i, t in parts}
    stored = {i: ensure_nl(t) for i, t in parts}
    got = res.get('ok')
    case = {'stream': stream, 'parts': parts, 'sep': sep, 'impl': res, 'classes': sorted(cl)}
    if extra: case.update(extra)
    if not (cl & {'K17a', 'K17h', 'dup'}):
        if got != stored:
            report(ctx, 'aggregated file does not split back into the module texts it was built from', case)
        elif got != exact:      # only the final newline was added
            if ctx.is_known('K17b'):
                ctx.known_finding('K17b', 'a module text without a final newline comes back from the aggregated file with one (benign normalisation)')
            else:
                report(ctx, 'module text comes back with an added final newline', case)
        return got == stored
    if got != exact and got != stored:
        for k in ('K17a', 'K17h'):
            if k in cl:
                what = {'K17a': 'a module text containing a marker-like line is truncated at it or makes the aggregated file unparseable',
                        'K17h': 'a module id with surrounding white space / a newline is not read back from its start marker'}[k]
                if ctx.is_known(k): ctx.known_finding(k, what)
                else: report(ctx, what, case)
    return False

def run_pure_streams(ctx, quick, seps):
    rng = ctx.rng
    n_fmt = 1200 if quick else 20000
    n_rt = 5000 if quick else 100000
    n_parse = 1500 if quick else 20000
    with Avh() as avh:
        # ---- format
        cases = []
        for i in range(n_fmt):
            mid, t = gen_id(rng), gen_text(rng)
            out = avh.call({'op': 'markers_format', 'id': mid, 'content': t})['out']
            c = {'stream': 'format', 'id': mid, 'content': t, 'impl': out}
            if out != raw_section(mid, ensure_nl(t)):
                report(ctx, 'format_module_section does not produce start marker + text + final newline + end marker', c)
            cases.append((cq.cpair(cq.cstr(mid), cq.cstr(t), cq.cstr(out)), c))
            ctx.count('format', key=(mid, t), nontrivial=t != '', tags=['nl' if t.endswith('\n') else 'no-nl', 'id_ok' if id_ok(mid) else 'id_bad'])
        for c in ctx.corr('format', HEADER, 'check_format', 'str * str * str', cases):
            report(ctx, 'model format_section and markers::format_module_section disagree', c, no_input=True)
        # ---- roundtrip (+ attribution)
        cases = []
        done = 0
        while done < n_rt:
            ti = rng.randrange(len(seps)); sep = seps[ti][1]
            parts = gen_parts(rng, bad=rng.random() < 0.35)
            def agg(ps):
                return sep.join(avh.call({'op': 'markers_format', 'id': i, 'content': t})['out'] for i, t in ps)
            text = agg(parts)
            res = avh.call({'op': 'markers_parse', 'text': text})
            good = roundtrip_oracle(ctx, parts, res, sep, 'roundtrip')
            cl = parts_classes(parts)
            ctx.count('roundtrip', key=tuple(parts), nontrivial=len(parts) >= 2,
                      tags=['n=%d' % len(parts)] + ['class:' + k for k in sorted(cl)] + (['clean'] if not cl else []) +
                           (['crlf'] if any('\r\n' in t for _, t in parts) else []) + (['empty-text'] if any(t == '' for _, t in parts) else []) +
                           ['impl:' + ('ok' if 'ok' in res else 'err%d' % classify_err(res['err']))])
            cases.append((cq.cpair(cq.cN(ti), c_parts(parts), obs_parse_term(res)), {'stream': 'roundtrip', 'parts': parts, 'target': seps[ti][0], 'impl': res}))
            done += 1
            if done <= 2: ctx.sample({'stream': 'roundtrip', 'parts': parts, 'aggregated': text, 'parsed': res})
            # attribution: replace one module's text, parse again, exactly that key changes
            if good and len(parts) >= 2 and rng.random() < 0.5:
                k = rng.randrange(len(parts))
                t2 = gen_text(rng, allow_marker=False)
                parts2 = list(parts); parts2[k] = (parts[k][0], t2)
                res2 = avh.call({'op': 'markers_parse', 'text': agg(parts2)})
                a, b = res.get('ok') or {}, res2.get('ok')
                c2 = {'stream': 'attribution', 'parts': parts, 'edited_index': k, 'new_text': t2, 'sep': sep, 'before': res, 'after': res2}
                if b is None or set(a) != set(b) or any(a[x] != b[x] for x in a if x != parts[k][0]) or b.get(parts[k][0]) != ensure_nl(t2):
                    report(ctx, 'an edit inside one module section is not attributed to exactly that module', c2)
                ctx.count('attribution', key=(tuple(parts), k, t2), nontrivial=ensure_nl(t2) != ensure_nl(parts[k][1]), tags=['edited'])
                cases.append((cq.cpair(cq.cN(ti), c_parts(parts2), obs_parse_term(res2)), c2))
                done += 1
        for c in ctx.corr('roundtrip', HEADER, 'check_roundtrip', 'N * list (str * str) * obs_parse', cases):
            report(ctx, 'model parse_sections∘aggregate and markers::parse∘format disagree', c, no_input=True)
        # ---- parse of arbitrary (hand-edited / damaged) files
        cases = []
        for i in range(n_parse):
            lines = []
            for _ in range(rng.choice([0, 1, 2, 3, 4, 5, 6, 8])):
                k = rng.random()
                if k < 0.30: lines.append(PREFIX + rng.choice(['a', 'a', 'b', 'b c', ' a ', 'é', 'a --> b']) + ' -->')
                elif k < 0.55: lines.append(rng.choice([END, END, ' ' + END + ' ', END + '\r']))
                elif k < 0.70: lines.append(rng.choice(MARKERS))
                elif k < 0.85: lines.append(rng.choice(PLAIN))
                else: lines.append(rng.choice(LOOKALIKE))
            text = ''
            for j, l in enumerate(lines):
                text += l + (rng.choice(['\n', '\n', '\r\n']) if j < len(lines) - 1 or rng.random() < 0.7 else '')
            res = avh.call({'op': 'markers_parse', 'text': text})
            kind = 'ok%d' % len(res['ok']) if 'ok' in res else 'err%d' % classify_err(res['err'])
            ctx.count('parse', key=text, nontrivial=PREFIX in text, tags=['impl:' + kind])
            cases.append((cq.cpair(cq.cstr(text), obs_parse_term(res)), {'stream': 'parse', 'text': text, 'impl': res}))
        for c in ctx.corr('parse', HEADER, 'check_parse', 'str * obs_parse', cases):
            report(ctx, 'model parse_sections and markers::parse_module_sections disagree', c, no_input=True)

def replay_witnesses_pure(ctx, seps):
    """the vm_compute witnesses of C17_roundtrip_refuted, on the implementation"""
    sep = seps[0][1]
    with Avh() as avh:
        def rt(parts):
            text = sep.join(avh.call({'op': 'markers_format', 'id': i, 'content': t})['out'] for i, t in parts)
            return avh.call({'op': 'markers_parse', 'text': text})
        w = {'K17b': ([('a', 'x'), ('b', 'y\n')], {'ok': {'a': 'x\n', 'b': 'y\n'}}),
             'K17a': ([('a', 'x\n' + END + '\ny\n'), ('b', 'z\n')], {'ok': {'a': 'x\n', 'b': 'z\n'}}),
             'K17h': ([('a ', 'x\n'), ('b', 'z\n')], {'ok': {'a': 'x\n', 'b': 'z\n'}})}
        for k, (parts, exp) in w.items():
            res = rt(parts)
            ctx.count('witness', key=k, tags=['pure:' + k])
            if res == exp:
                roundtrip_oracle(ctx, parts, res, sep, 'witness')
            else:
                ctx.notes.append('witness %s no longer reproduces on the implementation: %r' % (k, res))
        res = rt([('a', 'x\n' + PREFIX + 'q -->\n'), ('b', 'z\n')])
        if 'err' in res and classify_err(res['err']) == 2:
            roundtrip_oracle(ctx, [('a', 'x\n' + PREFIX + 'q -->\n'), ('b', 'z\n')], res, sep, 'witness')

# ---------------------------------------------------------------- end-to-end worlds

TARGET_CFG = {
    'codex_user': ('codex', 'user', {'write_agents_global': True, 'write_agents_repo_root': False}),
    'codex_project': ('codex', 'project', {'write_agents_global': False, 'write_agents_repo_root': True}),
    'codex_both': ('codex', 'both', {'write_agents_global': True, 'write_agents_repo_root': True}),
    'vscode': ('vscode', 'project', {'write_instructions': True, 'write_prompts': False}),
    'jetbrains': ('jetbrains', 'project', {}),
    'zed': ('zed', 'project', {}),
}

def git(sb, *args, cwd=None):
    p = sh_run(['git'] + list(args), cwd=cwd or sb.repo, env=sb.env())
    return p.returncode, p.stdout.decode('utf-8', 'replace'), p.stderr.decode('utf-8', 'replace')

def out_paths(sb, tkey):
    ch = os.path.join(sb.home, 'codex_home')
    return {'codex_user': [os.path.join(ch, 'AGENTS.md')], 'codex_project': [os.path.join(sb.project, 'AGENTS.md')],
            'codex_both': [os.path.join(ch, 'AGENTS.md'), os.path.join(sb.project, 'AGENTS.md')],
            'vscode': [os.path.join(sb.project, '.github', 'copilot-instructions.md')],
            'jetbrains': [os.path.join(sb.project, '.junie', 'guidelines.md')],
            'zed': [os.path.join(sb.project, '.rules')]}[tkey]

def build_world(sb, tkey, mods):
    target, scope, opts = TARGET_CFG[tkey]
    sb.git_init_project()
    opts = dict(opts)
    if target == 'codex':
        ch = os.path.join(sb.home, 'codex_home'); os.makedirs(ch, exist_ok=True)
        opts.update({'codex_home': ch, 'write_user_skills': False, 'write_repo_skills': False, 'write_user_prompts': False})
    modules = []
    for i, (mid, text) in enumerate(mods):
        d = 'modules/instructions/m%d' % i
        world.write(os.path.join(sb.repo, d, 'AGENTS.md'), text.encode('utf-8'))
        modules.append({'id': mid, 'type': 'instructions', 'tags': ['base'], 'targets': [target], 'source': {'local_path': {'path': d}}})
    man = {'version': 1, 'profiles': {'default': {'include_tags': ['base']}},
           'targets': {target: {'mode': 'files', 'scope': scope, 'options': opts}}, 'modules': modules}
    world.write_config(sb.repo, man)
    git(sb, 'init', '-q', '-b', 'main'); git(sb, 'add', '-A'); git(sb, 'commit', '-q', '-m', 'init')
    return target

def commit_all(sb, msg):
    git(sb, 'add', '-A'); git(sb, 'commit', '-q', '-m', msg)

def repo_tree(sb):
    """working-tree files of the config repo, without .git"""
    return {p: v for p, v in sb.snapshot(sb.repo).items() if '/.git/' not in p + '/' }

def outside_repo_git(sb):
    """everything in the sandbox except the config repo's .git directory and agentpack's own state/log files"""
    gitdir = os.path.join(sb.repo, '.git')
    st = os.path.join(sb.aphome, 'state')
    return {p: v for p, v in sb.snapshot().items() if not (p + '/').startswith(gitdir + '/') and not (p + '/').startswith(st + '/')}

def gen_module_id(rng, used):
    while True:
        mid = 'instructions:' + rng.choice(['one', 'two', 'base', 'team rules', 'é中', 'a--b', 'x.y', 'Z', 'a --> b', 'q=1', 'long-' + 'n' * rng.randrange(1, 30)]) + rng.choice(['', '', '1', '-x'])
        if mid not in used:
            used.add(mid); return mid

def gen_body(rng):
    return gen_text(rng, allow_marker=False, force_nl=True, nonempty=True)

def gen_scenario(rng, idx):
    tkey = rng.choice(['codex_user', 'codex_user', 'codex_project', 'codex_both', 'vscode', 'jetbrains', 'zed'])
    n = rng.choice([1, 2, 2, 2, 3, 3, 4])
    used = set()
    mods = []
    for _ in range(n):
        t = gen_text(rng, allow_marker=rng.random() < 0.08)
        if n == 1 and t == '': t = 'solo\n'
        mods.append((gen_module_id(rng, used), t))
    mods.sort(key=lambda m: m[0].encode('utf-8'))
    fam = rng.choice(['body', 'body', 'body', 'body', 'two_bodies', 'empty', 'marker_body', 'outside_body', 'outside_only',
                      'damage', 'missing', 'none', 'rename_id', 'body_dirty', 'body_overlay'])
    sc = {'idx': idx, 'target': tkey, 'mods': mods, 'family': fam, 'scope': rng.choice(['global', 'global', 'machine', 'project']),
          'seed': rng.randrange(1 << 30), 'overlay': None, 'dirty': None, 'second': rng.choice(['same', 'delete', 'keep'])}
    if fam == 'body_dirty':
        sc['dirty'] = rng.choice(['untracked', 'modified'])
    if fam == 'body' and rng.random() < 0.2:
        # the proposal branch cannot be created: --branch names an existing branch, or a branch literally named
        # `evolve` blocks every default evolve/propose-... ref.  The command fails; nothing else may have happened
        sc['branch_taken'] = rng.choice(['named', 'prefix'])
    if fam == 'body_overlay':
        sc['overlay'] = {'kind': rng.choice(['dir', 'dir_sparse', 'patch']), 'scope': rng.choice(['global', 'machine', 'project']), 'module': rng.randrange(n)}
    return sc

def edit_file(sc, deployed, sep, rng):
    """returns (new file text or None for delete, info).  Works on the implementation's own file."""
    mods = sc['mods']; fam = sc['family']; n = len(mods)
    if fam == 'none': return deployed, {'edited': []}
    if fam == 'missing': return None, {'edited': []}
    if n == 1:
        # no markers: any change of the single text
        new = deployed + rng.choice(['user line\n', '\nmore', '\r\n', 'é'])
        if fam in ('empty',): new = ''
        return new, {'edited': [0]}
    bodies = [ensure_nl(t) for _, t in mods]
    ids = [i for i, _ in mods]
    edited = []
    glue = [sep] * (n - 1); head = ''; tail = ''
    start_fmt = [PREFIX + i + ' -->\n' for i in ids]; end_fmt = [END] * n
    def pick(): return rng.randrange(n)
    if fam in ('body', 'body_dirty', 'body_overlay', 'outside_body', 'two_bodies'):
        ks = [sc['overlay']['module']] if fam == 'body_overlay' else rng.sample(range(n), 2 if fam == 'two_bodies' and n >= 2 else 1)
        for k in ks:
            nb = gen_body(rng)
            if nb == bodies[k]: nb = nb + 'changed\n'
            bodies[k] = nb; edited.append(k)
    if fam == 'empty':
        k = pick(); bodies[k] = ''; edited.append(k)
    if fam == 'marker_body':
        k = pick(); bodies[k] = 'keep\n' + rng.choice(MARKERS[:3] + MARKERS[3:5]) + '\nlost\n'; edited.append(k)
    if fam in ('outside_body', 'outside_only'):
        w = rng.randrange(6)
        if w == 0: glue[rng.randrange(n - 1)] = '\n\n***\n\n'
        elif w == 1: head = 'user preamble\n\n'
        elif w == 2: tail = '\n'
        elif w == 3: tail = '\n\nuser footer\n'
        elif w == 4: k = pick(); start_fmt[k] = '  ' + start_fmt[k]
        else: k = pick(); end_fmt[k] = END + ' '
    if fam == 'damage':
        w = rng.randrange(3); k = pick()
        if w == 0: end_fmt[k] = ''
        elif w == 1: bodies[k] = bodies[k].rstrip('\n') + 'x'       # END glued to the last line
        else: start_fmt[k] = PREFIX + ids[k] + ' --\n'
    if fam == 'rename_id':
        k = pick(); start_fmt[k] = PREFIX + ids[k] + 'X -->\n'
    new = head
    for k in range(n):
        new += start_fmt[k] + bodies[k] + end_fmt[k]
        if k < n - 1: new += glue[k]
    new += tail
    return new, {'edited': edited}

def overlay_dirs(sb, scope, key, project_id=None):
    if scope == 'global': return os.path.join('overlays', key)
    if scope == 'machine': return os.path.join('overlays', 'machines', sb.machine, key)
    return None

def run_scenario(sc, seps):
    """executes one propose scenario on the real binary; returns observations (no judgement)"""
    import random
    rng = random.Random(sc['seed'])
    sb = Sandbox('c17e')
    ob = {'steps': []}
    try:
        target = build_world(sb, sc['target'], sc['mods'])
        sep = dict(seps)[target]
        tflag = ['--target', target]
        ov = sc.get('overlay')
        if ov:
            mid = sc['mods'][ov['module']][0]
            args = ['overlay', 'edit', mid, '--scope', ov['scope'], '--yes', '--kind', 'patch' if ov['kind'] == 'patch' else 'dir']
            if ov['kind'] == 'dir_sparse': args.append('--sparse')
            rc, doc, so, se = sb.cli_json(args, extra_env={'EDITOR': 'true', 'VISUAL': 'true'})
            ob['overlay_edit'] = {'rc': rc, 'ok': bool(doc and doc.get('ok')), 'dir': (doc or {}).get('data', {}).get('overlay_dir')}
            commit_all(sb, 'overlay')
        rc, doc, so, se = sb.cli_json(tflag + ['deploy', '--apply', '--yes'])
        ob['deploy'] = {'rc': rc, 'ok': bool(doc and doc.get('ok')), 'out': so[-600:] if not (doc and doc.get('ok')) else ''}
        if not ob['deploy']['ok']:
            return ob
        paths = out_paths(sb, sc['target'])
        ob['paths'] = paths
        ob['deployed'] = {}
        for p in paths:
            try: ob['deployed'][p] = open(p, 'rb').read().decode('utf-8')
            except OSError: ob['deployed'][p] = None
        # edit the first output (the second one of codex_both: sometimes deleted, sometimes the same edit)
        drifted = {}
        for j, p in enumerate(paths):
            dep = ob['deployed'][p]
            if dep is None: continue
            if j == 0:
                new, info = edit_file(sc, dep, sep, rng); ob['edit'] = info
            else:
                w = sc.get('second', 'keep')
                new = drifted[paths[0]] if w == 'same' else (None if w == 'delete' else dep)
            drifted[p] = new
            if new is None: os.remove(p)
            elif new != dep:
                with open(p, 'wb') as f: f.write(new.encode('utf-8'))
        ob['drifted'] = drifted
        if sc.get('dirty') == 'untracked':
            world.write(os.path.join(sb.repo, 'notes.txt'), 'work in progress\n')
        elif sc.get('dirty') == 'modified':
            with open(os.path.join(sb.repo, 'modules/instructions/m0/AGENTS.md'), 'a') as f: f.write('uncommitted\n')
        bargs = []
        if sc.get('branch_taken') == 'named':
            git(sb, 'branch', 'taken'); bargs = ['--branch', 'taken']
        elif sc.get('branch_taken') == 'prefix':
            git(sb, 'branch', 'evolve')
        # --- observations before
        before_all = sb.snapshot()
        before_out = outside_repo_git(sb)
        ob['head_before'] = git(sb, 'rev-parse', '--abbrev-ref', 'HEAD')[1].strip()
        ob['main_before'] = git(sb, 'rev-parse', 'main')[1].strip()
        ob['status_before'] = git(sb, 'status', '--porcelain')[1]
        ob['stash_index_before'] = git(sb, 'diff', '--cached', '--name-only')[1]
        # --- dry run
        rc, doc, so, se = sb.cli_json(tflag + ['evolve', 'propose', '--dry-run', '--scope', sc['scope']])
        ob['dry'] = {'rc': rc, 'doc': doc}
        ob['dry_changed'] = sorted(p.replace(sb.root, '') for p in snap_diff(before_out, outside_repo_git(sb)))
        # --- real run
        rc, doc, so, se = sb.cli_json(tflag + ['evolve', 'propose', '--yes', '--scope', sc['scope']] + bargs)
        ob['propose'] = {'rc': rc, 'doc': doc, 'stderr': se[-400:]}
        after_out = outside_repo_git(sb)
        ob['changed_outside_git'] = sorted(p.replace(sb.root, '') for p in snap_diff(before_out, after_out))
        ob['head_after'] = git(sb, 'rev-parse', '--abbrev-ref', 'HEAD')[1].strip()
        ob['main_after'] = git(sb, 'rev-parse', 'main')[1].strip()
        ob['status_after'] = git(sb, 'status', '--porcelain')[1]
        ob['branches'] = [b.strip().lstrip('* ') for b in git(sb, 'branch', '--format=%(refname:short)')[1].split('\n') if b.strip()]
        created = bool(doc and doc.get('ok') and doc['data'].get('created'))
        ob['created'] = created
        if created:
            br = doc['data']['branch']
            ob['branch_files'] = [f for f in git(sb, 'diff', '--name-only', 'main..' + br)[1].split('\n') if f]
            ob['captured'] = {}
            for f in doc['data'].get('files_posix', []):
                rcg, txt, _ = git(sb, 'show', br + ':' + f)
                ob['captured'][f] = txt if rcg == 0 else None
            if doc['data'].get('committed'):
                rcg, _, err = git(sb, 'checkout', '-q', br)
                ob['checkout_rc'] = rcg
                rc, pdoc, so, se = sb.cli_json(tflag + ['plan'])
                ob['plan'] = {'rc': rc, 'ok': bool(pdoc and pdoc.get('ok')),
                              'changes': [(c['op'], c['path']) for c in pdoc['data']['changes']] if pdoc and pdoc.get('ok') else None,
                              'errors': [(e.get('code'), e.get('message')) for e in (pdoc or {}).get('errors', [])] if pdoc else so[-300:]}
                ob['targets_after_plan'] = {p: (open(p, 'rb').read().decode('utf-8', 'replace') if os.path.exists(p) else None) for p in paths}
        ob['root'] = sb.root
        return ob
    finally:
        sb.close()

def section_bodies(avh, text):
    res = avh.call({'op': 'markers_parse', 'text': text})
    return res.get('ok')

def judge_scenario(ctx, avh, sc, ob, seps, cases_dep, cases_dec):
    case = {'stream': 'propose', 'scenario': sc}
    def viol(what, cls=None, extra=None):
        c = dict(case); c['observed'] = {k: v for k, v in ob.items() if k not in ('deployed', 'drifted', 'targets_after_plan')}
        if extra: c.update(extra)
        for k in (cls or []):
            if ctx.is_known(k):
                ctx.known_finding(k, KNOWN_WHAT[k]); return
        report(ctx, what, c)
    target = TARGET_CFG[sc['target']][0]
    sep = dict(seps)[target]
    mods = sc['mods']; ids = [i for i, _ in mods]
    if not ob.get('deploy', {}).get('ok'):
        ctx.notes.append('scenario %d: deploy failed (%s)' % (sc['idx'], ob.get('deploy', {}).get('out', '')[:200])); return
    root = ob['root']
    # deployed bytes = model's renderer (correspondence) and the python mirror (oracle)
    exp_file = sep.join(raw_section(i, ensure_nl(t)) for i, t in mods) if len(mods) > 1 else mods[0][1]
    for p in ob['paths']:
        dep = ob['deployed'][p]
        if dep is None:
            viol('deploy did not write the aggregated instructions file'); return
        if True:
            cases_dep.append((cq.cpair(cq.cstr(target), c_parts(mods), cq.cstr(dep)), {'stream': 'deployed', 'scenario': sc, 'file': dep}))
        if dep != exp_file:
            viol('deployed aggregated file is not the marked concatenation of the module texts', extra={'deployed': dep})
    # ---- classes of this scenario (computed from data, not from the family label)
    classes = set()
    drift_paths = [p for p in ob['paths'] if ob['drifted'].get(p, ob['deployed'][p]) != ob['deployed'][p]]
    accepted_paths = []
    marked = len(mods) > 1
    for p in drift_paths:
        new = ob['drifted'][p]
        if new is None: continue
        if marked:
            secs = section_bodies(avh, new)
            if secs is not None:
                if any(v == '' for v in secs.values()): classes.add('K17f')
                recon = sep.join(raw_section(i, secs.get(i, '\0')) for i in ids)
                if recon != new: classes.add('K17g')
                if any(not body_ok(v) for v in secs.values()): classes.add('K17a')
    if any(not text_ok(t) for _, t in mods): classes.add('K17a')
    ov = sc.get('overlay')
    edited_ids = [ids[k] for k in ob.get('edit', {}).get('edited', [])]
    if ov and ob.get('overlay_edit', {}).get('ok'):
        order = ['global', 'machine', 'project']
        if ov['kind'] == 'patch' and ov['scope'] == sc['scope']: classes.add('K17e')
        if ov['kind'] in ('dir', 'patch') and order.index(ov['scope']) > order.index(sc['scope']): classes.add('K17j')
    # ---- expected decision per output, from the property's point of view
    pr = ob['propose']; doc = pr['doc']
    dry = ob['dry']['doc']
    if ob['dry_changed']:
        viol('evolve propose --dry-run changed files', extra={'changed': ob['dry_changed']})
    # nondestructive: target files / project / home untouched, original branch and uncommitted work untouched
    bad_out = [p for p in ob['changed_outside_git'] if not p.startswith('/aphome/repo/')]
    if bad_out:
        viol('evolve propose altered files outside the config repo (target files must stay untouched)', extra={'changed': bad_out})
    in_repo = [p for p in ob['changed_outside_git'] if p.startswith('/aphome/repo/')]
    committed = bool(doc and doc.get('ok') and doc['data'].get('committed'))
    if in_repo and (committed or not ob['created']):
        viol('evolve propose left the config repo working tree changed on the original branch', extra={'changed': in_repo})
    if ob['head_after'] != ob['head_before'] and (committed or not ob['created']):
        viol('evolve propose did not return to the original branch')
    if ob['main_after'] != ob['main_before']:
        viol('evolve propose moved the original branch')
    if ob['status_after'] != ob['status_before'] and (committed or not ob['created']):
        viol('evolve propose changed uncommitted work / index of the config repo', extra={'status_before': ob['status_before'], 'status_after': ob['status_after']})
    if sc.get('branch_taken'):
        needs = bool(dry and dry.get('ok') and dry['data'].get('candidates'))
        if needs and doc and doc.get('ok') and not ob['created']:
            viol('evolve propose reports success although its proposal branch could not be created')
        ctx.count('propose', key=(sc['target'], sc['family'], 'branch_taken', sc['branch_taken']), tags=['family:' + sc['family'], 'outcome:branch-taken-%s' % ('created' if ob['created'] else 'refused')])
        if not ob['created']:
            return
    if sc.get('dirty'):
        codes = [e.get('code') for e in (doc or {}).get('errors', [])]
        needs = bool(dry and dry.get('ok') and dry['data'].get('candidates'))
        if needs and (pr['rc'] == 0 or 'E_GIT_WORKTREE_DIRTY' not in codes):
            viol('evolve propose ran on a dirty config repo (uncommitted work at risk)')
        if ob['created'] or len(ob['branches']) != 1:
            viol('evolve propose created a branch although the config repo was dirty')
        ctx.count('propose', key=(sc['target'], sc['family'], 'dirty'), tags=['family:' + sc['family'], 'outcome:dirty-refused'])
        return
    if not doc or not doc.get('ok'):
        viol('evolve propose --yes --json failed', extra={'stderr': pr['stderr']}); return
    data = doc['data']
    # which outputs does the property expect to be captured / skipped?
    reported_skips = {(s['path'], s['reason']) for s in data.get('skipped', [])}
    dry_skips = {(s['path'], s['reason']) for s in (dry or {}).get('data', {}).get('skipped', [])} if dry and dry.get('ok') else set()
    exp_skips = set()
    for p in drift_paths:
        new = ob['drifted'][p]
        if new is None: exp_skips.add((p, 'missing'))
    # model correspondence for the decision (single-output worlds; captured text read from the branch)
    if len(ob['paths']) == 1:
        p = ob['paths'][0]
        new = ob['drifted'].get(p, ob['deployed'][p])
        code = None; cands = []
        if new == ob['deployed'][p]: code = 0
        elif (p, 'missing') in (reported_skips | dry_skips): code = 1
        elif (p, 'multi_module_output') in (reported_skips | dry_skips): code = 2
        elif ob['created']:
            code = 3
            keymap = {}
            for i in ids:
                keymap[avh.call({'op': 'fs_key', 'id': i}).get('out')] = i
            for f, txt in ob['captured'].items():
                comps = f.split('/')
                mid = keymap.get(comps[-2]) if len(comps) >= 2 else None
                if mid is None or txt is None: code = None
                else: cands.append((mid, txt))
            cands.sort(key=lambda kv: kv[0].encode('utf-8'))
        if code is not None:
            desired = ob['deployed'][p]
            term = cq.cpair(cq.cstr(desired), cq.clist([cq.cstr(i) for i in ids]), cq.copt(new, cq.cstr), cq.cpair(cq.cN(code), c_parts(cands)))
            cases_dec.append((term, {'stream': 'decide', 'scenario': sc, 'desired': desired, 'actual': new, 'observed': [code, cands]}))
    outcome = 'created' if ob['created'] else data.get('reason')
    ctx.count('propose', key=(sc['target'], sc['family'], sc['scope'], len(mods), tuple(sorted(classes)), outcome, json.dumps(sc.get('overlay'))),
              nontrivial=bool(drift_paths), tags=['family:' + sc['family'], 'target:' + sc['target'], 'outcome:%s' % outcome, 'scope:' + sc['scope']] + ['class:' + k for k in sorted(classes)])
    if not ob['created']:
        # nothing accepted: every drifted output must be reported as skipped, with its reason
        if len(ob['branches']) != 1:
            viol('evolve propose reported no proposal but created a branch')
        for p in drift_paths:
            reasons = {r for (q, r) in reported_skips if q == p}
            if not reasons:
                viol('drifted output %s was neither proposed nor reported as skipped' % p.replace(root, ''))
            elif ob['drifted'][p] is None and 'missing' not in reasons:
                viol('missing output reported with reason %s' % sorted(reasons))
        if not drift_paths and data.get('reason') != 'no_drift':
            viol('no drift on disk but evolve propose reports %s' % data.get('reason'))
        # drift confined to section bodies (no known class) must be accepted, not skipped
        for p in drift_paths:
            new = ob['drifted'][p]
            if new is not None and not classes and sc['family'] in ('body', 'two_bodies', 'body_overlay'):
                viol('drift confined to module sections was skipped instead of proposed')
        return
    # ---- a proposal was created
    br = data['branch']
    if br not in ob['branches']:
        viol('reported proposal branch does not exist')
    for f in ob.get('branch_files', []):
        if not (f.startswith('overlays/') or re.match(r'projects/[^/]+/overlays/', f)):
            viol('proposal branch touches a file outside the overlay directories: ' + f)
    if (dry_skips - reported_skips):
        viol('drift skipped by evolve propose is not reported when a proposal branch is created', cls=['K17i'],
             extra={'skipped_in_dry_run': sorted(dry_skips)})
    if not committed:
        viol('proposal was not committed', extra={'stderr': pr['stderr']}); return
    plan = ob.get('plan') or {}
    captured_paths = [p for p in drift_paths if ob['drifted'][p] is not None and (p, 'multi_module_output') not in dry_skips]
    tpaths = ob.get('targets_after_plan', {})
    for p in ob['paths']:
        want = ob['drifted'].get(p, ob['deployed'][p])
        if tpaths.get(p, want) != want:
            viol('target file changed while checking the proposal'); break
    if not plan.get('ok'):
        viol('the proposal branch no longer renders (plan fails after checkout): %s' % (plan.get('errors'),), cls=sorted(classes & {'K17e', 'K17a'}))
        return
    changed = {q for (_, q) in plan['changes']}
    ctx.count('fixpoint', key=(sc['idx'], tuple(sorted(classes))), nontrivial=not classes,
              tags=['classes:' + (','.join(sorted(classes)) or 'none'), 'plan-clean:%s' % (not any(p in changed for p in captured_paths))])
    for p in captured_paths:
        if p in changed:
            viol('after checking out the proposal branch, plan still reports drift for the captured file %s' % p.replace(root, ''),
                 cls=sorted(classes & {'K17a', 'K17f', 'K17g', 'K17e', 'K17j'}))

KNOWN_WHAT = {
    'K17a': 'a module text containing a marker-like line is truncated at it or makes the aggregated file unparseable; a proposal made from such a file loses the lines after it',
    'K17b': 'a module text without a final newline comes back from the aggregated file with one (benign normalisation)',
    'K17c': 'evolve propose of a cursor rule captures the generated front matter into AGENTS.md; the proposal re-renders with a doubled header (plan still drifted)',
    'K17d': 'evolve propose of a VS Code prompt whose source is not named *.prompt.md captures it under the deployed name; the module then has two files and the proposal branch no longer renders',
    'K17e': 'evolve propose writes a directory override into a patch overlay of the chosen scope; the proposal branch no longer renders (E_CONFIG_INVALID)',
    'K17f': 'emptying a module section is accepted, but the captured empty text re-renders with a blank line (plan still drifted)',
    'K17g': 'an edit outside the section bodies next to an edit inside is accepted; the outside edit is dropped (plan still drifted)',
    'K17h': 'a module id with surrounding white space / a newline is not read back from its start marker',
    'K17i': 'when a proposal branch is created, drift that was skipped (missing / multi-module) is not reported in the JSON output',
    'K17j': 'a proposal written to a lower-precedence scope is shadowed by an existing overlay of a higher-precedence scope (plan still drifted)',
}

def run_e2e(ctx, quick, seps):
    n = 110 if quick else 1500
    rng = ctx.rng
    scs = [gen_scenario(rng, i) for i in range(n)]
    cases_dep, cases_dec = [], []
    with concurrent.futures.ThreadPoolExecutor(max_workers=max(2, NCPU // 2)) as ex:
        obs = list(ex.map(lambda sc: run_scenario(sc, seps), scs))
    with Avh() as avh:
        for sc, ob in zip(scs, obs):
            judge_scenario(ctx, avh, sc, ob, seps, cases_dep, cases_dec)
            if sc['idx'] < 2:
                ctx.sample({'stream': 'propose', 'scenario': sc, 'created': ob.get('created'), 'plan': ob.get('plan'),
                            'propose_data': (ob.get('propose', {}).get('doc') or {}).get('data')})
    for c in ctx.corr('deployed', HEADER, 'check_deployed', 'str * list (str * str) * str', cases_dep):
        report(ctx, 'model render_instructions and the deployed aggregated file disagree', c, no_input=True)
    for c in ctx.corr('decide', HEADER, 'check_decide', 'str * list str * option str * (N * list (str * str))', cases_dec):
        report(ctx, 'model decide/capture and evolve propose disagree on what is captured or skipped', c, no_input=True)

# ---------------------------------------------------------------- single-module kinds (prompts, commands, skills, cursor)

SKILL_MD = '---\nname: %s\ndescription: test skill\n---\n\n# skill\n'
CMD_MD = '---\ndescription: test command\n---\n\nDo the thing.\n'

SKILL_ID_VARIANTS = [('skill:helper', 'helper'), ('skill:my-skill', 'my-skill'), ('skill:team:reviewer', 'team:reviewer'), ('skill:a:b:c', 'a:b:c'),
                     ('release.notes', 'release_notes'), ('plain-skill', 'plain-skill'), ('a b.c', 'a_b_c')]

def kind_world(sb, kind, rng, variant=0):
    """returns (target, module, [deployed path to edit], info)"""
    sb.git_init_project()
    ch = os.path.join(sb.home, 'codex_home'); os.makedirs(ch, exist_ok=True)
    info = {'kind': kind}
    codex_opts = {'codex_home': ch, 'write_agents_global': False, 'write_agents_repo_root': False, 'write_user_skills': False,
                  'write_repo_skills': False, 'write_user_prompts': False}
    if kind in ('vscode_prompt_md', 'vscode_prompt_pm', 'vscode_prompt_txt'):
        fname = {'vscode_prompt_md': rng.choice(['review.md', 'a.b.md']), 'vscode_prompt_pm': 'review.prompt.md', 'vscode_prompt_txt': 'notes.prompt.md'}[kind]
        target, scope, opts = 'vscode', 'project', {'write_instructions': False, 'write_prompts': True}
        mod = {'id': 'prompt:review', 'type': 'prompt'}; files = {fname: '# prompt\nbody\n'}
        info.update({'ty': 1, 'src_name': fname, 'root': os.path.join(sb.project, '.github', 'prompts')})
    elif kind == 'codex_prompt':
        fname = rng.choice(['p.md', 'do it.md'])
        target, scope, opts = 'codex', 'user', dict(codex_opts, write_user_prompts=True)
        mod = {'id': 'prompt:p', 'type': 'prompt'}; files = {fname: '# prompt\n'}
        info.update({'ty': 1, 'src_name': fname, 'root': os.path.join(ch, 'prompts')})
    elif kind == 'claude_command':
        target, scope, opts = 'claude_code', 'project', {'write_repo_commands': True, 'write_user_commands': False}
        mod = {'id': 'command:ship', 'type': 'command'}; files = {'ship.md': CMD_MD}
        info.update({'ty': 2, 'src_name': 'ship.md', 'root': os.path.join(sb.project, '.claude', 'commands')})
    elif kind == 'codex_skill':
        # (module id, skill directory): the directory is everything after the FIRST ':' of the id, or, for an id
        # without a type prefix, the SANITISED whole id; every variant is exercised (run_kinds enumerates them)
        mid, name = SKILL_ID_VARIANTS[variant % len(SKILL_ID_VARIANTS)]
        target, scope, opts = 'codex', 'user', dict(codex_opts, write_user_skills=True)
        mod = {'id': mid, 'type': 'skill'}; files = {'SKILL.md': SKILL_MD % name, 'notes/x.md': 'note\n'}
        info.update({'ty': 3, 'skill_name': name, 'root': os.path.join(ch, 'skills'), 'edit_rel': rng.choice(['SKILL.md', 'notes/x.md'])})
    elif kind == 'cursor_rule':
        target, scope, opts = 'cursor', 'project', {}
        mod = {'id': rng.choice(['instructions:one', 'instructions:"q" \\ é']), 'type': 'instructions'}; files = {'AGENTS.md': rng.choice(['# one\n', 'no newline', ''])}
        info.update({'ty': 0, 'root': os.path.join(sb.project, '.cursor', 'rules'), 'body': files['AGENTS.md']})
    else:
        raise ValueError(kind)
    d = 'modules/k/m'
    for fn, txt in files.items():
        world.write(os.path.join(sb.repo, d, fn), txt.encode('utf-8'))
    mod.update({'tags': ['base'], 'targets': [target], 'source': {'local_path': {'path': d}}})
    man = {'version': 1, 'profiles': {'default': {'include_tags': ['base']}},
           'targets': {target: {'mode': 'files', 'scope': scope, 'options': opts}}, 'modules': [mod]}
    world.write_config(sb.repo, man)
    git(sb, 'init', '-q', '-b', 'main'); git(sb, 'add', '-A'); git(sb, 'commit', '-q', '-m', 'init')
    info['module_id'] = mod['id']
    return target, info

def run_kind(args):
    kind, seed = args
    import random
    rng = random.Random(seed)
    sb = Sandbox('c17k')
    ob = {'kind': kind}
    try:
        target, info = kind_world(sb, kind, rng, variant=seed)
        ob['info'] = info
        tflag = ['--target', target]
        rc, doc, so, se = sb.cli_json(tflag + ['deploy', '--apply', '--yes'])
        if not (doc and doc.get('ok')):
            ob['deploy_failed'] = so[-500:]; return ob
        created = [c['path'] for c in doc['data']['changes'] if not os.path.basename(c['path']).startswith('.agentpack.manifest')]
        ob['deployed_paths'] = [p.replace(sb.root, '') for p in created]
        if kind == 'codex_skill':
            p = os.path.join(info['root'], info['skill_name'], info['edit_rel'])
        else:
            p = created[0]
        ob['path'] = p; ob['rel'] = os.path.relpath(p, info['root'])
        dep = open(p, 'rb').read().decode('utf-8'); ob['deployed'] = dep
        new = dep + rng.choice(['user line\n', '\nmore\n'])
        with open(p, 'wb') as f: f.write(new.encode('utf-8'))
        ob['drifted'] = new
        before = outside_repo_git(sb)
        rc, doc, so, se = sb.cli_json(tflag + ['evolve', 'propose', '--yes'])
        ob['propose'] = doc; ob['changed'] = sorted(q.replace(sb.root, '') for q in snap_diff(before, outside_repo_git(sb)))
        ob['head'] = git(sb, 'rev-parse', '--abbrev-ref', 'HEAD')[1].strip()
        if doc and doc.get('ok') and doc['data'].get('created'):
            br = doc['data']['branch']
            ob['captured'] = {f: git(sb, 'show', br + ':' + f)[1] for f in doc['data']['files_posix']}
            git(sb, 'checkout', '-q', br)
            rc, pdoc, so, se = sb.cli_json(tflag + ['plan'])
            ob['plan'] = {'ok': bool(pdoc and pdoc.get('ok')), 'changes': [c['path'] for c in pdoc['data']['changes']] if pdoc and pdoc.get('ok') else None,
                          'errors': [(e.get('code'), e.get('message')) for e in (pdoc or {}).get('errors', [])]}
        ob['root'] = sb.root
        return ob
    finally:
        sb.close()

def run_kinds(ctx, quick, only=None):
    kinds = [only] if only else ['vscode_prompt_md', 'vscode_prompt_pm', 'vscode_prompt_txt', 'codex_prompt', 'claude_command', 'codex_skill', 'cursor_rule']
    reps = 3 if quick else 12
    jobs = [(k, ctx.rng.randrange(1 << 30)) for k in kinds if k != 'codex_skill' for _ in range(reps)]
    if 'codex_skill' in kinds:
        base = ctx.rng.randrange(1 << 20) * len(SKILL_ID_VARIANTS)
        jobs += [('codex_skill', base + i) for i in range(len(SKILL_ID_VARIANTS) * (1 if quick else 3))]
    with concurrent.futures.ThreadPoolExecutor(max_workers=max(2, NCPU // 2)) as ex:
        obs = list(ex.map(run_kind, jobs))
    rel_cases, name_cases, cur_cases = [], [], []
    with Avh() as avh:
        for ob in obs:
            kind = ob['kind']; info = ob.get('info', {})
            case = {'stream': 'kinds', 'kind': kind, 'observed': {k: v for k, v in ob.items() if k != 'root'}}
            if 'deploy_failed' in ob:
                ctx.notes.append('kinds: deploy failed for %s: %s' % (kind, ob['deploy_failed'][:200])); continue
            doc = ob.get('propose')
            cls = {'vscode_prompt_md': 'K17d', 'cursor_rule': 'K17c'}.get(kind)
            def viol(what, k=None):
                if k and ctx.is_known(k): ctx.known_finding(k, KNOWN_WHAT[k])
                else: report(ctx, what, case)
            ok_fix = False
            if not (doc and doc.get('ok') and doc['data'].get('created')):
                viol('single-module drift was not proposed')
            else:
                bad_out = [p for p in ob['changed'] if not p.startswith('/aphome/repo/')]
                if bad_out or ob['head'] != 'main' or ob['changed']:
                    viol('evolve propose altered files / did not return to the original branch')
                plan = ob.get('plan', {})
                if not plan.get('ok'):
                    viol('the proposal branch no longer renders: %s' % (plan.get('errors'),), cls if cls == 'K17d' else None)
                elif ob['path'] in plan['changes']:
                    viol('plan still reports drift for the captured file after checking out the proposal', cls if cls == 'K17c' else None)
                else:
                    ok_fix = True
                # correspondence: where inside the overlay directory the captured file went
                key = avh.call({'op': 'fs_key', 'id': info['module_id']}).get('out')
                for f, txt in ob['captured'].items():
                    comps = f.split('/')
                    rel_obs = '/'.join(comps[comps.index(key) + 1:]) if key in comps else None
                    rel_in = ob['rel'] if info['ty'] == 3 else None
                    rel_cases.append((cq.cpair(cq.cN(info['ty']), cq.cstr(info.get('skill_name', '')), cq.cstr(ob['path']), cq.copt(rel_in, cq.cstr), cq.copt(rel_obs, cq.cstr)),
                                      {'stream': 'relpath', 'kind': kind, 'path': ob['path'], 'observed': rel_obs}))
                    if txt != ob['drifted']:
                        viol('captured bytes differ from the drifted file')
            if kind.startswith('vscode_prompt'):
                name_cases.append((cq.cpair(cq.cstr(info['src_name']), cq.cstr(os.path.basename(ob['path']))), {'stream': 'vscode_name', 'src': info['src_name'], 'deployed': ob['path']}))
            if kind == 'cursor_rule':
                desc = json.dumps('agentpack: ' + info['module_id'], ensure_ascii=False)
                cur_cases.append((cq.cpair(cq.cstr(desc), cq.cstr(info['body']), cq.cstr(ob['deployed'])), {'stream': 'cursor', 'module': info['module_id'], 'file': ob['deployed']}))
            ctx.count('kinds', key=(kind, info.get('src_name'), info.get('edit_rel'), info.get('module_id'), info.get('body'), ok_fix), tags=['kind:' + kind, 'fixpoint:%s' % ok_fix])
    for c in ctx.corr('relpath', HEADER, 'check_relpath', 'N * str * str * option str * option str', rel_cases):
        report(ctx, 'model module_rel_for_output and the overlay path written by evolve propose disagree', c, no_input=True)
    for c in ctx.corr('vscode_name', HEADER, 'check_vscode_name', 'str * str', name_cases):
        report(ctx, 'model vscode_prompt_name and the deployed prompt file name disagree', c, no_input=True)
    for c in ctx.corr('cursor', HEADER, 'check_cursor', 'str * str * str', cur_cases):
        report(ctx, 'model cursor_rule and the deployed rule file disagree', c, no_input=True)

# ---------------------------------------------------------------- directed witnesses of the known classes (every run)

def witness_scenarios():
    M2 = [('instructions:one', '# one\n'), ('instructions:two', '# two\n')]
    base = {'target': 'codex_user', 'mods': M2, 'scope': 'global', 'seed': 1, 'overlay': None, 'dirty': None, 'second': 'keep'}
    w = []
    w.append(dict(base, idx=-1, family='empty', expect='K17f'))
    w.append(dict(base, idx=-2, family='outside_body', expect='K17g'))
    w.append(dict(base, idx=-3, family='body', mods=[('instructions:one', 'a\n' + END + '\nb\n'), ('instructions:two', '# two\n')], expect='K17a'))
    w.append(dict(base, idx=-4, family='body_overlay', overlay={'kind': 'patch', 'scope': 'global', 'module': 0}, expect='K17e'))
    w.append(dict(base, idx=-5, family='body_overlay', overlay={'kind': 'dir', 'scope': 'project', 'module': 0}, expect='K17j'))
    w.append(dict(base, idx=-6, family='body', target='codex_both', second='delete', expect=None))     # regression for /repo d059432 (was K17i)
    return w

def run_witnesses(ctx, seps):
    ws = witness_scenarios()
    obs = [run_scenario(w, seps) for w in ws]
    dep, dec = [], []
    with Avh() as avh:
        for w, ob in zip(ws, obs):
            judge_scenario(ctx, avh, w, ob, seps, dep, dec)
            if w['expect'] is not None and not any(h.split(' ')[2].rstrip(':') == w['expect'] for h in ctx.known_hits):
                ctx.notes.append('directed witness for %s did not reproduce on this tree' % w['expect'])
    return dep, dec

# ---------------------------------------------------------------- entry point

def replay(ctx, seps):
    """re-execute one recorded case on the current implementation (oracle + model comparison)"""
    case = json.load(open(ctx.replay))
    st = case.get('stream')
    if 'scenario' in case:
        sc = case['scenario']; sc['mods'] = [tuple(m) for m in sc['mods']]
        ob = run_scenario(sc, seps)
        dep, dec = [], []
        with Avh() as avh:
            judge_scenario(ctx, avh, sc, ob, seps, dep, dec)
        for c in ctx.corr('deployed', HEADER, 'check_deployed', 'str * list (str * str) * str', dep):
            report(ctx, 'model render_instructions and the deployed aggregated file disagree', c, no_input=True)
        for c in ctx.corr('decide', HEADER, 'check_decide', 'str * list str * option str * (N * list (str * str))', dec):
            report(ctx, 'model decide/capture and evolve propose disagree on what is captured or skipped', c, no_input=True)
    elif st in ('roundtrip', 'witness', 'attribution') and 'parts' in case:
        parts = [tuple(p) for p in case['parts']]
        if st == 'attribution': parts[case['edited_index']] = (parts[case['edited_index']][0], case['new_text'])
        sep = case.get('sep') or dict(seps).get(case.get('target')) or seps[0][1]
        ti = [x[1] for x in seps].index(sep) if sep in [x[1] for x in seps] else 0
        with Avh() as avh:
            text = sep.join(avh.call({'op': 'markers_format', 'id': i, 'content': t})['out'] for i, t in parts)
            res = avh.call({'op': 'markers_parse', 'text': text})
        roundtrip_oracle(ctx, parts, res, sep, 'roundtrip')
        for c in ctx.corr('roundtrip', HEADER, 'check_roundtrip', 'N * list (str * str) * obs_parse',
                          [(cq.cpair(cq.cN(ti), c_parts(parts), obs_parse_term(res)), {'stream': 'roundtrip', 'parts': parts, 'sep': sep, 'impl': res})]):
            report(ctx, 'model parse_sections∘aggregate and markers::parse∘format disagree', c, no_input=True)
    elif st == 'format' and 'id' in case:
        with Avh() as avh:
            out = avh.call({'op': 'markers_format', 'id': case['id'], 'content': case['content']})['out']
        c = {'stream': 'format', 'id': case['id'], 'content': case['content'], 'impl': out}
        if out != raw_section(case['id'], ensure_nl(case['content'])):
            report(ctx, 'format_module_section does not produce start marker + text + final newline + end marker', c)
        for c in ctx.corr('format', HEADER, 'check_format', 'str * str * str', [(cq.cpair(cq.cstr(case['id']), cq.cstr(case['content']), cq.cstr(out)), c)]):
            report(ctx, 'model format_section and markers::format_module_section disagree', c, no_input=True)
    elif st == 'parse' and 'text' in case:
        with Avh() as avh:
            res = avh.call({'op': 'markers_parse', 'text': case['text']})
        for c in ctx.corr('parse', HEADER, 'check_parse', 'str * obs_parse', [(cq.cpair(cq.cstr(case['text']), obs_parse_term(res)), {'stream': 'parse', 'text': case['text'], 'impl': res})]):
            report(ctx, 'model parse_sections and markers::parse_module_sections disagree', c, no_input=True)
    elif st == 'kinds' and 'kind' in case:
        run_kinds(ctx, True, only=case['kind'])
    else:
        report(ctx, 'recorded case cannot be re-executed directly (proof or correspondence obligation): ' + str(case.get('what')), case, no_input=True)

def run(ctx):
    quick = ctx.tier == 'quick'
    ctx.rule = ('format/roundtrip/parse: (id, text) lists built from pools of plain lines, CRLF, empty texts, missing final newline, Unicode white space, '
                'marker look-alikes and real marker lines, ids with blanks/`-->`/newlines, duplicate ids; through markers::format_module_section / '
                'parse_module_sections (avh) and the Coq model.  propose: real binary in a sandbox with a git config repo — deploy aggregated instructions '
                '(codex user/project/both, vscode, jetbrains, zed; 1–4 modules), edit the deployed file (section bodies, emptied section, marker lines, '
                'text outside sections, damaged markers, deleted file, nothing), optional existing overlay / dirty repo, evolve propose --dry-run and --yes, '
                'checkout the branch, plan.  kinds: single-module outputs (prompts, commands, skills, cursor rules).  '
                'non-trivial = ≥ 2 modules resp. a drifted output; distinct = distinct inputs resp. (target, family, scope, #modules, classes, outcome)')
    ctx.trusted = ['Coq 8.16.1 kernel + vm_compute', 'hand-written model coq/Model/Markers.v (overlay composition, git and YAML not modelled)',
                   'correspondence harness (Python generators and class predicates, avh, CLI driver, git)',
                   'tools/gen_tables.py (marker strings, per-target join separator)']
    ctx.assumptions = ['overlay composition places <overlay>/AGENTS.md over the module file (observed end-to-end, not modelled)',
                       'deployed files and module texts are valid UTF-8']
    ctx.proof_phase(extra_targets=['Corr/Check_C17.vo'])
    seps = read_seps()
    if ctx.replay:
        replay(ctx, seps); return
    replay_witnesses_pure(ctx, seps)
    dep, dec = run_witnesses(ctx, seps)
    run_pure_streams(ctx, quick, seps)
    run_e2e(ctx, quick, seps)
    run_kinds(ctx, quick)
    flush_report_counts(ctx)
