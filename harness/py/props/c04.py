"""C04 — Apply performs exactly the previewed plan and never leaks across targets."""
from vlib.common import *
from vlib import deploysim as ds

def run(ctx):
    quick = ctx.tier == 'quick'
    ctx.rule = ('cli_deploy: histories of (config edit, user edit, deploy via CLI json/human, MCP, TUI) x adopt x --target, comparing plan --json, '
                'the change list echoed by deploy and the complete filesystem delta; lib_apply: library-level plan+apply over generated '
                'roots (nested, shared by two targets) / manifests; non-trivial = non-empty plan or refusal; distinct = distinct (entry, adopt, target, outcome, op set, tags)')
    ctx.trusted = ['Coq 8.16.1 kernel + vm_compute', 'hand-written model coq/Model/Deploy.v', 'harness manifest classifier', 'reference desired state (harness CfgWorld)',
                   'avh harness crate, MCP client', 'tools/gen_tables.py']
    ctx.assumptions = ['SHA-256 injective on the file contents at hand (content ids)', 'no symlinks in target roots',
                       'C04_realised: the plan addresses no path twice (two targets sharing a root directory can violate this; such cases are generated and judged by the oracle + model comparison)']
    ctx.proof_phase(extra_targets=['Corr/Check_Deploy.vo'])
    ds.run_cli_stream(ctx, 14 if quick else 200, 4 if quick else 8, props={'C04'})
    ds.run_cli_stream(ctx, 8 if quick else 120, 4, props={'C04'}, stream='shared_root', script=ds.script_shared_root_filter, setup=ds.setup_shared_root)
    ds.run_cli_stream(ctx, 6 if quick else 100, 2, props={'C04'}, stream='prefix_siblings', script=ds.script_prefix_siblings)
    ds.run_cli_stream(ctx, 6 if quick else 100, 3, props={'C04'}, stream='symlinked_outputs', script=ds.script_symlinked_outputs,
                      setup=lambda cw, rng: ds.setup_shared_root(cw, rng) if rng.random() < 0.6 else ds.setup_two_roots(cw, rng))
    ds.run_lib_stream(ctx, 120 if quick else 2500, props={'C04'})
