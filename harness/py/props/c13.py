"""C13 — Overlay layers compose by precedence; metadata never ships; keys never collide."""
import re, os, json, random, hashlib, shutil, subprocess, concurrent.futures
from vlib.common import *
from vlib import coqrun as cq
from vlib.impl import Avh, Sandbox
from vlib import world

sh_run = run      # vlib.common.run (subprocess helper); `run` below is the check's entry point
HEADER = 'From AP Require Import Corr.Check_C13.\nOpen Scope N_scope.\n'
PREFIX_MAX = 64          # cross-checked against Gen/Tables.v in run()
KEEP = set('ABCDEFGHIJKLMNOPQRSTUVWXYZabcdefghijklmnopqrstuvwxyz0123456789-_')
META = ('.agentpack', '.git')
ERR_CODES = {'E_CONFIG_INVALID': 0, 'E_OVERLAY_PATCH_APPLY_FAILED': 1}

# K13a witness: real 40-bit SHA-256 prefix collision (same values as Proofs/IdsP.v wit_*)
WIT_A = 'skill:' + 'a' * 64 + '529511'
WIT_B = 'skill:' + 'a' * 64 + '1983538'
WIT_SHA_A = 'f4a8591a7e539a51ea339fe4d8f22c24b100b10f73ed13579eb00fedc543f42e'
WIT_SHA_B = 'f4a8591a7ec1e20147e6615766c68b10c08860b8d71e0010dea7f5867f89e95d'

def sha_hex(s):
    return hashlib.sha256(s.encode('utf-8')).hexdigest()

# ------------------------------------------------------------------ Python mirror of the key rules (oracle side)

def py_sanitize(s):
    return ''.join(c if c in KEEP else '_' for c in s)

def py_key(mid, bound=-1):
    if bound == -1: bound = PREFIX_MAX
    p = py_sanitize(mid) or 'module'
    if bound is not None and len(p) > bound:
        p = p[:bound]
    return p + '--' + sha_hex(mid)[:10]

def py_legacy_safe(v):
    return v not in ('', '.', '..') and '/' not in v and '\\' not in v

def key_safety(k):
    """the property predicate on one derived directory name"""
    if not k: return 'empty key'
    if any(c not in KEEP for c in k): return 'key contains a character outside [A-Za-z0-9_-]'
    if len(k.encode('utf-8')) > PREFIX_MAX + 12: return 'key longer than %d bytes' % (PREFIX_MAX + 12)
    if k in ('.', '..') or '/' in k or '\\' in k or '\0' in k: return 'key is not a single path component'
    return None

# ------------------------------------------------------------------ stream 1: ids

def rand_scalar(rng):
    k = rng.random()
    if k < 0.45: return chr(rng.randrange(32, 127))
    if k < 0.55: return rng.choice(':/\\._- \t')
    if k < 0.65: return chr(rng.randrange(0, 32))
    if k < 0.80: return chr(rng.randrange(0xA0, 0x800))
    if k < 0.92:
        c = rng.randrange(0x800, 0x10000)
        return chr(c) if not (0xD800 <= c <= 0xDFFF) else '中'
    return chr(rng.randrange(0x10000, 0x110000))

def gen_ids(rng, n):
    ids = ['', '.', '..', 'module', 'a:b', 'a/b', 'a\\b', 'a_b', 'a b', 'instructions:base', 'skill:../../x', 'machines',
           WIT_A[:-1], 'x', py_key('x'), py_key(py_key('x')), 'é' * 40, '\U0001F600' * 70, 'a' * 64, 'a' * 65, 'a' * 300]
    words = ['skill', 'prompt', 'command', 'instructions', 'base', 'my-skill', 'review', 'x', 'deploy_v2', 'Ünï', '中文', 'a.b', '..', 'con', 'nul']
    while len(ids) < n:
        k = rng.random()
        if k < 0.25:
            ids.append('%s%s%s' % (rng.choice(words), rng.choice(':/\\ _-'), rng.choice(words)))
        elif k < 0.45:
            ids.append(''.join(rand_scalar(rng) for _ in range(rng.randrange(0, 24))))
        elif k < 0.60:   # long, common prefix, equal after truncation
            base = rng.choice(['skill:', 'p/', '']) + rng.choice('ab_é:') * rng.randrange(55, 80)
            ids.append(base + str(rng.randrange(1000)))
            ids.append(base + str(rng.randrange(1000)) + rng.choice(['', 'x', '/y']))
        elif k < 0.75:   # equal after sanitising
            w = rng.choice(words) + rng.choice(words)
            i = rng.randrange(1, len(w))
            for sep in rng.sample(':/\\ _.@é', 3):
                ids.append(w[:i] + sep + w[i:])
        elif k < 0.90:   # an id that is another id's key (bounded, unbounded) or legacy-looking
            o = rng.choice(ids)
            ids.append(rng.choice([py_key(o), py_key(o, None), py_sanitize(o), o + '--' + sha_hex(o)[:10]]))
        else:
            ids.append(''.join(rand_scalar(rng) for _ in range(rng.randrange(60, 140))))
    return ids[:n]

def run_ids(ctx, n, n_coq):
    ids = gen_ids(ctx.rng, n)
    seen = {}
    cases = []
    with Avh() as avh:
        for i, mid in enumerate(ids):
            k = avh.call({'op': 'fs_key', 'id': mid}).get('out')
            sn = avh.call({'op': 'sanitize', 's': mid}).get('out')
            lg = avh.call({'op': 'legacy_safe', 's': mid}).get('out')
            case = {'stream': 'ids', 'id': mid, 'id_codepoints': [ord(c) for c in mid], 'fs_key': k, 'sanitize': sn, 'legacy_safe': lg}
            if not isinstance(k, str) or not isinstance(sn, str):
                report(ctx, 'module_fs_key / sanitize_fs_component failed (panic?) on an id', case); continue
            bad = key_safety(k)
            if bad:
                report(ctx, 'derived directory name is unsafe: ' + bad, case)
            if k != py_key(mid):
                report(ctx, 'fs key is not <sanitised bounded prefix>--<sha256[:10]>', case)
            truncated = len(py_sanitize(mid) or 'module') > PREFIX_MAX
            other = seen.get(k)
            if other is not None and other != mid:
                case['collides_with'] = other
                if sha_hex(other)[:10] == sha_hex(mid)[:10] and ctx.is_known('K13a'):
                    ctx.known_finding('K13a', 'two module ids with equal sanitised prefix and equal first 40 SHA-256 bits share one fs key')
                else:
                    report(ctx, 'two different module ids have the same fs key', case)
            seen.setdefault(k, mid)
            ctx.count('ids', key=mid, nontrivial=(py_sanitize(mid) != mid or truncated or mid == ''),
                      tags=['truncated' if truncated else 'short', 'legacy_safe' if lg else 'legacy_unsafe'])
            if i < n_coq:
                cases.append((cq.cpair(cq.cstr(mid), cq.cstr(sha_hex(mid)),
                                       cq.cpair(cq.cstr(k), cq.cstr(sn), cq.cbool(bool(lg)))), case))
            if i in (4, 30):
                ctx.sample(case)
    for c in ctx.corr('ids', HEADER, 'check_ids', 'str * str * (str * str * bool)', cases):
        report(ctx, 'model and implementation disagree on module_fs_key / sanitize / legacy_safe', c, no_input=True)

# ------------------------------------------------------------------ stream 1b: machine id / project id

MID_RE = re.compile(r'^[a-z0-9_-]+$')

def gen_machine_src(rng):
    k = rng.random()
    words = ['My Host', 'build-box', 'MacBook-Pro.local', 'srv_01', 'UPPER', '..', '../..', '/', '\\', ' ', '-', '--', '_', 'a--b', '\u212a9', '\u0130stanbul',
             'caf\u00e9', '\u3000wide\u3000', 'x\ty', '\u00a0', '#7', 'CON', 'a.b.c', '\u03a3\u03a3', '\U0001f600', 'y' * 300, '']
    if k < 0.5:
        return rng.choice(['', ' ', '  ', '-', '.', '\n']).join(rng.choice(words) for _ in range(rng.randrange(1, 4)))
    if k < 0.85:
        return ''.join(rand_scalar(rng) for _ in range(rng.randrange(0, 20)))
    return rng.choice([' ', '-', '\u2003']) * rng.randrange(0, 3) + rng.choice(words) + rng.choice([' ', '-', '\n', '\u2003']) * rng.randrange(0, 3)

def py_mid_safe(m):
    return bool(m) and MID_RE.match(m) is not None and not m.startswith('-') and not m.endswith('-')

def run_machine_ids(ctx, n_lib, n_cli):
    rng = ctx.rng
    cases = []
    with Avh() as avh:
        for i in range(n_lib):
            src = gen_machine_src(rng)
            out = avh.call({'op': 'machine_norm', 's': src}).get('out')
            case = {'stream': 'machine_ids', 'source': src, 'source_codepoints': [ord(c) for c in src], 'normalized': out}
            if not isinstance(out, str):
                report(ctx, 'normalize_machine_id failed (panic?)', case); continue
            if out and not py_mid_safe(out):
                report(ctx, 'machine id is not a safe path component over [a-z0-9_-] without edge dashes: %r' % out, case)
            again = avh.call({'op': 'machine_norm', 's': out}).get('out')
            if again != out:
                report(ctx, 'normalize_machine_id is not a projection: %r -> %r' % (out, again), case)
            ctx.count('machine_ids', key=src, nontrivial=(out != src), tags=['empty' if not out else 'nonempty', 'lib'])
            cases.append((cq.cpair(cq.cstr(src), cq.cstr(out)), case))
    for c in ctx.corr('machine_ids', HEADER, 'check_machine_norm', 'str * str', cases):
        report(ctx, 'model and implementation disagree on normalize_machine_id', c, no_input=True)
    # through the CLI: --machine override and the environment candidates, project id of a project without origin
    rn = Runner('c13m')
    cases = []
    try:
        world.write_config(rn.sb.repo, manifest_for(rn.codex_home, 'skill:probe'))
        hn = subprocess.run(['hostname'], capture_output=True)
        host_out = hn.stdout.decode('utf-8', 'replace') if hn.returncode == 0 else None
        basis = os.path.realpath(rn.sb.project)
        for i in range(n_cli):
            def val():
                v = gen_machine_src(rng).replace('\x00', '')
                return v
            override = val() if rng.random() < 0.5 else None
            envs = {k: (val() if rng.random() < 0.5 else None) for k in ('AGENTPACK_MACHINE_ID', 'HOSTNAME', 'COMPUTERNAME')}
            env = rn.sb.env()
            for k, v in envs.items():
                env.pop(k, None)
                if v is not None: env[k] = v
            got = {}
            ok = True
            for scope in ('machine', 'project'):
                args = [AGENTPACK_BIN] + (['--machine=' + override] if override is not None else []) + ['overlay', 'path', 'skill:probe', '--scope', scope, '--json']
                try:
                    p = subprocess.run(args, cwd=rn.sb.project, env=env, capture_output=True, timeout=60)
                    doc = json.loads(p.stdout.decode('utf-8', 'replace'))
                    got[scope] = doc['data']['overlay_dir']
                except Exception as e:
                    ok = False; got[scope] = repr(e)[:200]
            case = {'stream': 'machine_cli', 'override': override, 'env': envs, 'hostname_output': host_out, 'overlay_dirs': got}
            if not ok:
                report(ctx, 'overlay path failed for some --machine / environment value', case); continue
            mid = os.path.basename(os.path.dirname(got['machine']))
            pid = os.path.basename(os.path.dirname(os.path.dirname(got['project'])))
            case.update(machine_id=mid, project_id=pid)
            if not py_mid_safe(mid) and mid != 'unknown':
                report(ctx, 'machine id is not a safe path component: %r' % mid, case)
            if os.path.dirname(os.path.dirname(got['machine'])) != os.path.join(rn.sb.repo, 'overlays', 'machines'):
                report(ctx, 'machine overlay directory is not <repo>/overlays/machines/<id>/<key>: %s' % got['machine'], case)
            if not re.match(r'^[0-9a-f]{16}$', pid) or os.path.dirname(os.path.dirname(os.path.dirname(got['project']))) != os.path.join(rn.sb.repo, 'projects'):
                report(ctx, 'project overlay directory is not <repo>/projects/<16 hex>/overlays/<key>: %s' % got['project'], case)
            cands = [envs[k] for k in ('AGENTPACK_MACHINE_ID', 'HOSTNAME', 'COMPUTERNAME') if envs[k] is not None] + ([host_out] if host_out is not None else [])
            ctx.count('machine_cli', key=(override, tuple(sorted(envs.items(), key=str))), nontrivial=True,
                      tags=['override' if override is not None else 'detect', 'unknown' if mid == 'unknown' else 'derived'])
            cases.append((cq.cpair(cq.copt(override, cq.cstr), cq.clist([cq.cstr(x) for x in cands]), cq.cstr(mid),
                                   cq.cpair(cq.cstr(sha_hex(basis)), cq.cstr(pid))), case))
    finally:
        rn.close()
    for c in ctx.corr('machine_cli', HEADER, 'check_machine_engine', 'option str * list str * str * (str * str)', cases):
        report(ctx, 'model and implementation disagree on the machine id / project id of an invocation', c, no_input=True)

# ------------------------------------------------------------------ worlds

SK_HEAD = '---\nname: s\ndescription: d\n---\n'
WORDS = ['a', 'b', 'c', 'd', 'e', 'f', 'g', 'h']
POOL = ['f.txt', 'g.md', 'sub/h.txt', 'sub/deep/i.txt']
MODULE_IDS = ['skill:a', 'skill:' + 'n' * 70, 'skill:ünï cödé', 'plainid', 'skill:a.b-c_d', 'skill:' + 'é' * 66]

def manifest_for(codex_home, mid):
    return {'version': 1, 'profiles': {'default': {'include_tags': ['base']}},
            'targets': {'codex': {'mode': 'files', 'scope': 'user',
                                  'options': {'codex_home': codex_home, 'write_agents_global': False, 'write_agents_repo_root': False,
                                              'write_user_skills': True, 'write_repo_skills': False, 'write_user_prompts': False}}},
            'modules': [{'id': mid, 'type': 'skill', 'tags': ['base'], 'source': {'local_path': {'path': 'modules/m'}}}]}

def gen_text(rng):
    return ''.join('%s%d\n' % (rng.choice(WORDS), rng.randrange(4)) for _ in range(rng.randrange(2, 6)))

def mutate(rng, text, keep_head=0):
    lines = text.split('\n')
    tail_nl = lines and lines[-1] == ''
    if tail_nl: lines = lines[:-1]
    head, body = lines[:keep_head], lines[keep_head:]
    k = rng.randrange(7)
    if k == 5:
        # whitespace is content: trailing blanks / tabs on a changed or added line (a Markdown hard break), blank lines at the end
        body.insert(rng.randrange(len(body) + 1), rng.choice(['hard break  ', 'tab\t', ' lead and trail \t ', '']))
        if rng.random() < 0.5: body += ['', '']
    elif k == 6 and body:
        i = rng.randrange(len(body)); body[i] = body[i] + rng.choice(['  ', '\t', ' '])
    elif k == 0 and body:
        i = rng.randrange(len(body)); body[i] = body[i].upper() + 'x'
    elif k == 1:
        body.insert(rng.randrange(len(body) + 1), 'ins%d' % rng.randrange(9))
    elif k == 2 and len(body) > 1:
        del body[rng.randrange(len(body))]
    elif k == 3:
        body.append('end%d' % rng.randrange(9))
    else:
        body = body + ['t%d' % rng.randrange(9)] if not body else [body[0] + '!'] + body[1:]
    out = '\n'.join(head + body)
    if tail_nl or rng.random() < 0.9: out += '\n'
    return out

class Git:
    """git called by the harness itself (oracle values): diff --no-index and apply, outside any repository"""
    def __init__(self, root):
        self.root = root; self.n = 0
        self.env = dict(os.environ, GIT_CEILING_DIRECTORIES=os.path.dirname(root), GIT_CONFIG_NOSYSTEM='1',
                        GIT_CONFIG_GLOBAL=os.path.join(root, 'gitconfig'), HOME=root)
        self.cache = {}
    def _dir(self):
        self.n += 1
        d = os.path.join(self.root, 'g%d' % self.n); os.makedirs(d); return d
    def diff(self, rel, old, new):
        d = self._dir()
        world.write(os.path.join(d, 'a', rel), old); world.write(os.path.join(d, 'b', rel), new)
        p = sh_run(['git', '-c', 'core.autocrlf=false', 'diff', '--no-index', '--src-prefix=', '--dst-prefix=', '--', 'a/' + rel, 'b/' + rel],
                cwd=d, env=self.env)
        shutil.rmtree(d, ignore_errors=True)
        return p.stdout
    def apply(self, rel_parts, patch_bytes, target_bytes):
        """what `git apply` makes of the file at rel (None = non-zero exit)"""
        key = (tuple(rel_parts), patch_bytes, target_bytes)
        if key in self.cache: return self.cache[key]
        d = self._dir()
        t = os.path.join(d, 'w', *rel_parts)
        world.write(t, target_bytes); world.write(os.path.join(d, 'p.patch'), patch_bytes)
        p = sh_run(['git', '-c', 'core.autocrlf=false', 'apply', '--whitespace=nowarn', os.path.join(d, 'p.patch')],
                cwd=os.path.join(d, 'w'), env=self.env)
        res = None
        if p.returncode == 0:
            with open(t, 'rb') as f: res = f.read()
        shutil.rmtree(d, ignore_errors=True)
        self.cache[key] = res
        return res

def is_utf8(b):
    try:
        b.decode('utf-8'); return True
    except UnicodeDecodeError:
        return False

def has_meta(rel):
    return any(c in META for c in rel.split('/'))

# ---- specification-side composition (the property, evaluated by the harness with git as oracle)

def rust_lines(t):
    parts = t.split('\n')
    if parts and parts[-1] == '': parts.pop()
    return [p[:-1] if p.endswith('\r') else p for p in parts]

def header_ok(text, rel):
    if 'GIT binary patch' in text: return False
    olds = []; news = []
    for l in rust_lines(text):
        if l.startswith('--- '): olds.append(l[4:])
        elif l.startswith('+++ '): news.append(l[4:])
    if len(olds) != 1 or len(news) != 1: return False
    def hp(v):
        w = v.split(); return w[0] if w else ''
    def ab(p):
        return p[2:] if p.startswith('a/') or p.startswith('b/') else p
    o, n = hp(olds[0]), hp(news[0])
    if o == '/dev/null' or n == '/dev/null': return False
    return ab(o) == rel and ab(n) == rel

def multi_section(text):
    ls = rust_lines(text)
    i = next((k for k, l in enumerate(ls) if l.startswith('--- ')), len(ls))
    dg = lambda xs: sum(1 for l in xs if l.startswith('diff --git '))
    return dg(ls[:i]) > 1 or dg(ls[i:]) > 0

def extension(name):
    if name == '..' or '.' not in name: return None
    before, after = name.rsplit('.', 1)
    return None if before == '' else after

def conflicts(rel, cur):
    a = rel.split('/')
    for p in cur:
        b = p.split('/')
        if (len(a) < len(b) and b[:len(a)] == a) or (len(b) < len(a) and a[:len(b)] == b): return True
    return False

def spec_layer(layer, cur, git, tab):
    """layer = {'meta': ..., 'files': {rel: bytes}}; returns ('ok', newcur) or ('err', code, why)"""
    if layer['meta'] == 'invalid':
        return ('err', 0, 'invalid overlay metadata')
    files = layer['files']
    overrides = [r for r in files if not has_meta(r)]
    patches = []
    for r in files:
        comps = r.split('/')
        if comps[:2] == ['.agentpack', 'patches'] and len(comps) > 2:
            ext = extension(comps[-1])
            if ext is not None and ext.lower() == 'patch':
                patches.append(comps[2:])
    patches.sort(key=lambda cs: [c.encode('utf-8') for c in cs])
    if overrides and patches: return ('err', 0, 'mixed dir+patch')
    if layer['meta'] != 'patch':
        if patches: return ('err', 0, 'overlay_kind=dir with patch artifacts')
        new = dict(cur)
        for r, b in files.items():
            if has_meta(r): continue
            if conflicts(r, new): return ('err', 2, 'file/directory type clash')
            new[r] = b
        return ('ok', new)
    if overrides: return ('err', 0, 'overlay_kind=patch with override files')
    new = dict(cur)
    for comps in patches:
        posix = '/'.join(comps).replace('\\', '/')
        if not posix.endswith('.patch'): continue
        rel = posix[:-len('.patch')]
        segs = rel.split('/')
        if rel == '' or rel.startswith('/') or any(s in ('', '.', '..') for s in segs): return ('err', 0, 'bad relpath')
        if rel not in new: return ('err', 0, 'missing target')
        if not is_utf8(new[rel]): return ('err', 0, 'non-UTF-8 target')
        pb = files['.agentpack/patches/' + '/'.join(comps)]
        if not is_utf8(pb): return ('err', 0, 'non-UTF-8 patch')
        if not header_ok(pb.decode('utf-8'), rel): return ('err', 0, 'patch header refused')
        res = git.apply(segs, pb, new[rel])
        tab.append((pb.decode('utf-8'), new[rel].decode('utf-8'), None if res is None else res.decode('utf-8', 'replace')))
        if res is None: return ('err', 1, 'git apply failed')
        new[rel] = res
    return ('ok', new)

# ---- scenario generation: layers are generated against the expected lower state

META_JSON = {'absent': None, 'dir': '{"overlay_kind": "dir"}', 'patch': '{\n  "overlay_kind": "patch"\n}\n', 'empty_obj': '{}',
             'garbage': 'not json', 'badkind': '{"overlay_kind": "foo"}'}
META_STATE = {'absent': 'dir', 'dir': 'dir', 'empty_obj': 'dir', 'patch': 'patch', 'garbage': 'invalid', 'badkind': 'invalid'}

def text_paths(cur):
    return sorted(p for p, b in cur.items() if is_utf8(b))

def mutate_file(rng, rel, b):
    t = b.decode('utf-8')
    return mutate(rng, t, keep_head=4 if rel == 'SKILL.md' else 0).encode('utf-8')

def gen_layer(rng, cur, up, git):
    """returns (tag, meta_key, files) with files keyed by overlay-relative posix path"""
    files = {}
    noise = lambda: files.update({k: b'noise\n' for k in rng.sample(['.agentpack/module_id', '.git/x', 'sub/.agentpack/y', '.agentpack/notes/n.txt'], rng.randrange(0, 3))})
    def patch_for(rel, against=None):
        old = cur[rel] if against is None else against
        new = mutate_file(rng, rel, old)
        return git.diff(rel, old, new)
    k = rng.random()
    tp = text_paths(cur)
    if k < 0.42:      # directory layer
        meta = rng.choice(['absent', 'absent', 'dir', 'empty_obj'])
        for _ in range(rng.randrange(1, 4)):
            r = rng.choice(POOL + ['SKILL.md', 'new.txt', 'sub/new2.md', 'bin.dat'])
            if r == 'SKILL.md': files[r] = mutate_file(rng, r, cur.get(r, (SK_HEAD + 'x\n').encode()))
            elif r == 'bin.dat' or rng.random() < 0.08: files[r if r != 'SKILL.md' else 'bin.dat'] = bytes([255, 254, rng.randrange(256)])
            elif r in cur and is_utf8(cur[r]) and rng.random() < 0.6: files[r] = mutate_file(rng, r, cur[r])
            else: files[r] = gen_text(rng).encode()
        files = {r: b for r, b in files.items() if not conflicts(r, cur) and not conflicts(r, {x: 1 for x in files if x != r})}
        noise()
        return ('dir', meta, files)
    if k < 0.72 and tp:      # well-formed patch layer
        for rel in rng.sample(tp, min(len(tp), rng.randrange(1, 3))):
            c = rng.random()
            against = None
            if c > 0.75 and rel in up and is_utf8(up[rel]): against = up[rel]          # made for upstream, lower layers may have changed it
            elif c > 0.9: against = gen_text(rng).encode()                              # made for something else
            p = patch_for(rel, against)
            if p: files['.agentpack/patches/%s.patch' % rel] = p
        if rng.random() < 0.3: files['.agentpack/module_id'] = b'm\n'
        return ('patch', 'patch', files)
    # malformed / refused / odd layers
    rel = rng.choice(tp) if tp else 'SKILL.md'
    other = rng.choice([p for p in tp if p != rel] or [rel])
    good = patch_for(rel) if rel in cur else b''
    name = '.agentpack/patches/%s.patch' % rel
    raws = sorted(p for p, b in cur.items() if not is_utf8(b))
    kind = rng.choice(['hdr_mismatch', 'devnull', 'two_diffs', 'empty', 'nohdr', 'binary', 'nonutf8_patch', 'missing_target', 'raw_target',
                       'backslash', 'upper_ext', 'tab_ts', 'no_ab', 'hunk_like_header', 'mixed', 'kind_dir_with_patch',
                       'kind_patch_with_overrides', 'garbage_meta', 'badkind', 'type_conflict', 'meta_target', 'crlf', 'nested_ok', 'stale']
                      + (['raw_target'] * 4 if raws else []))
    meta = 'patch'
    if kind == 'hdr_mismatch': files['.agentpack/patches/%s.patch' % other] = good if other != rel else good.replace(rel.encode(), b'zz.txt')
    elif kind == 'devnull': files[name] = ('--- /dev/null\n+++ b/%s\n@@ -0,0 +1 @@\n+x\n' % rel).encode()
    elif kind == 'two_diffs': files[name] = good + (patch_for(other) if other in cur else good)
    elif kind == 'empty': files[name] = b''
    elif kind == 'nohdr': files[name] = b'this is not a patch\n'
    elif kind == 'binary': files[name] = b'GIT binary patch\n' + good
    elif kind == 'nonutf8_patch': files[name] = b'\xff\xfe' + good
    elif kind == 'missing_target': files['.agentpack/patches/nope.txt.patch'] = good.replace(rel.encode(), b'nope.txt')
    elif kind == 'raw_target':
        tgt = rng.choice(raws) if raws else 'bin.dat'
        files['.agentpack/patches/%s.patch' % tgt] = good.replace(rel.encode(), tgt.encode())
    elif kind == 'backslash': files['.agentpack/patches/a\\..\\%s.patch' % rel.replace('/', '\\')] = good
    elif kind == 'upper_ext': files['.agentpack/patches/%s.PATCH' % rel] = good
    elif kind == 'tab_ts':
        files[name] = good.replace(('--- a/%s\n' % rel).encode(), ('--- a/%s\t2020-01-01\n' % rel).encode()).replace(('+++ b/%s\n' % rel).encode(), ('+++ b/%s\t2021-01-01\n' % rel).encode())
    elif kind == 'no_ab':
        files[name] = good.replace(('--- a/%s\n' % rel).encode(), ('--- %s\n' % rel).encode()).replace(('+++ b/%s\n' % rel).encode(), ('+++ %s\n' % rel).encode())
    elif kind == 'hunk_like_header':
        if rel in cur and rel != 'SKILL.md':
            old = cur[rel]; files[name] = git.diff(rel, old + b'-- x\n', old) if rng.random() < 0.5 else git.diff(rel, old, old + b'++ y\n')
            # the first variant needs the lower content to contain the line; it then fails to apply or is refused first
        else: files[name] = good
    elif kind == 'mixed': files[name] = good; files[rng.choice(['new.txt', other])] = b'stray\n'
    elif kind == 'kind_dir_with_patch': files[name] = good; meta = rng.choice(['absent', 'dir', 'empty_obj'])
    elif kind == 'kind_patch_with_overrides': files[rng.choice(['new.txt', other])] = b'stray\n'
    elif kind == 'garbage_meta': meta = 'garbage'; files['new.txt'] = b'x\n'
    elif kind == 'badkind': meta = 'badkind'; files[name] = good
    elif kind == 'type_conflict':
        meta = 'absent'
        subs = [p for p in cur if '/' in p]
        if subs and rng.random() < 0.5: files[subs[0].split('/')[0]] = b'now a file\n'
        else: files[rel + '/inner.txt'] = b'now a dir\n'
    elif kind == 'meta_target': files['.agentpack/patches/.agentpack/x.patch'] = good.replace(rel.encode(), b'.agentpack/x')
    elif kind == 'crlf': files[name] = good.replace(b'\n', b'\r\n')
    elif kind == 'nested_ok':
        files[name] = good
        if other != rel and other in cur: files['.agentpack/patches/%s.patch' % other] = patch_for(other)
        files['.agentpack/patches/README'] = b'not a patch\n'
    elif kind == 'stale': files[name] = git.diff(rel, gen_text(rng).encode(), gen_text(rng).encode())
    files = {r: b for r, b in files.items() if b is not None}
    return ('bad:' + kind, meta, files)

def gen_scenario(rng, git):
    mid = rng.choice(MODULE_IDS[:1] * 3 + MODULE_IDS)
    up = {'SKILL.md': (SK_HEAD + gen_text(rng)).encode()}
    for r in rng.sample(POOL, rng.randrange(0, len(POOL) + 1)):
        up[r] = gen_text(rng).encode()
    if rng.random() < 0.35: up['bin.dat'] = bytes([255, 254, rng.randrange(256)])
    if rng.random() < 0.35:
        # metadata names that are regular FILES (a gitlink `.git` file of a submodule / linked worktree): filtered all the same
        up_noise = {r: b'gitdir: ../.git/modules/x\n' for r in rng.sample(['.git', 'sub/.git', 'deep/er/.git', 'sub/.agentpack'], rng.randrange(1, 3))}
    else:
        up_noise = {r: b'upstream meta\n' for r in rng.sample(['.git/HEAD', '.agentpack/up.json', 'sub/.git/config', 'sub/.agentpack/n'], rng.randrange(0, 3))}
    scopes = [s for s in ('global', 'machine', 'project') if rng.random() < 0.6]
    return {'id': mid, 'upstream': up, 'up_noise': up_noise, 'scopes': scopes}

# ---- one scenario on the real binary

class Runner:
    def __init__(self, tag, meta_home=False):
        self.sb = Sandbox(tag)
        self.meta_home = meta_home
        if meta_home:   # AGENTPACK_HOME below a directory literally named .agentpack (as the default ~/.agentpack)
            self.sb.aphome = os.path.join(self.sb.home, '.agentpack'); os.makedirs(self.sb.aphome)
            self.sb.repo = os.path.join(self.sb.aphome, 'repo')
        self.sb.git_init_project()
        self.codex_home = os.path.join(self.sb.home, 'codex_home')
        self.git = Git(os.path.join(self.sb.root, 'gitwork')); os.makedirs(self.git.root)
        # library-level driver; its `git apply` runs below the sandbox, which must not be taken for part of the /verif repository
        self.avh = Avh(env={'GIT_CEILING_DIRECTORIES': self.sb.root})
        self.bases = None
    def reset(self):
        for d in ('overlays', 'projects', 'modules'):
            shutil.rmtree(os.path.join(self.sb.repo, d), ignore_errors=True)
        shutil.rmtree(self.codex_home, ignore_errors=True)
        shutil.rmtree(os.path.join(self.sb.aphome, 'state'), ignore_errors=True)
    def overlay_path(self, mid, scope):
        if mid.startswith('-'):      # (--json must come before the `--` that protects an id starting with a dash)
            p = self.sb.cli(['overlay', 'path', '--scope', scope, '--json', '--', mid])
            out = p.stdout.decode('utf-8', 'replace'); err = p.stderr.decode('utf-8', 'replace'); rc = p.returncode
            try: doc = json.loads(out)
            except Exception: doc = None
        else:
            rc, doc, out, err = self.sb.cli_json(['overlay', 'path', mid, '--scope', scope])
        if rc != 0 or not doc or not doc.get('ok'):
            raise InfraError('overlay path failed: %s %s' % (out[:300], err[:300]))
        return doc['data']['overlay_dir']
    def learn_bases(self):
        if self.bases is None:
            world.write_config(self.sb.repo, manifest_for(self.codex_home, 'skill:probe'))
            self.bases = {sc: os.path.dirname(self.overlay_path('skill:probe', sc)) for sc in ('global', 'machine', 'project')}
        return self.bases
    def close(self):
        self.avh.close()
        self.sb.close()

def read_tree(root):
    out = {}
    for dp, dns, fns in os.walk(root):
        for fn in fns:
            p = os.path.join(dp, fn)
            if os.path.isfile(p) and not os.path.islink(p):
                with open(p, 'rb') as f: out[os.path.relpath(p, root).replace(os.sep, '/')] = f.read()
    return out

def classify_meta(files):
    raw = files.get('.agentpack/overlay.json')
    if raw is None: return 'absent'
    try:
        d = json.loads(raw.decode('utf-8'))
    except Exception:
        return 'invalid'
    if not isinstance(d, dict): return 'invalid'
    k = d.get('overlay_kind', 'dir')
    return k if k in ('dir', 'patch') else 'invalid'

def c_files(files):
    items = []
    for rel in sorted(files):
        b = files[rel]
        comps = cq.clist([cq.cstr(c) for c in rel.split('/')])
        if is_utf8(b): items.append('(%s, Text %s)' % (comps, cq.cstr(b.decode('utf-8'))))
        else: items.append('(%s, Raw [%s])' % (comps, ';'.join(str(x) for x in b)))
    return cq.clist(items)

C_META = {'absent': 'MAbsent', 'dir': '(MKind KDir)', 'patch': '(MKind KPatch)', 'invalid': 'MInvalid'}

def run_scenario(rn, seed):
    """build the world, let the harness compute the specified result, run the real binary, return the record"""
    rng = random.Random(seed)
    sb = rn.sb
    bases = rn.learn_bases()
    rn.reset()
    sc = gen_scenario(rng, rn.git)
    mid = sc['id']
    world.write_config(sb.repo, manifest_for(rn.codex_home, mid))
    for r, b in list(sc['upstream'].items()) + list(sc['up_noise'].items()):
        world.write(os.path.join(sb.repo, 'modules/m', r), b)
    cur = dict(sc['upstream'])
    spec = ('ok', cur); tab = []; tags = []; resolve_cases = []
    layers_meta = []
    for scope in ('global', 'machine', 'project'):
        if scope not in sc['scopes']:
            continue
        tag, meta_key, files = gen_layer(rng, cur if spec[0] == 'ok' else dict(sc['upstream']), sc['upstream'], rn.git)
        # placement below the scope's base: canonical key, unbounded key, raw id, or canonical AND raw id (canonical must win)
        names = [py_key(mid)]
        c = rng.random()
        decoy = None
        if c < 0.15 and py_key(mid, None) != py_key(mid): names = [py_key(mid, None)]
        elif c < 0.30 and py_legacy_safe(mid): names = [mid]
        elif c < 0.40 and py_legacy_safe(mid): decoy = mid
        elif c < 0.45 and py_key(mid, None) != py_key(mid): decoy = py_key(mid, None)
        d = os.path.join(bases[scope], names[0])
        os.makedirs(d, exist_ok=True)
        if META_JSON[meta_key] is not None:
            world.write(os.path.join(d, '.agentpack/overlay.json'), META_JSON[meta_key])
        for r, b in files.items():
            world.write(os.path.join(d, r), b)
        if decoy:
            world.write(os.path.join(bases[scope], decoy, 'SKILL.md'), (SK_HEAD + 'decoy must not be used\n').encode())
            world.write(os.path.join(bases[scope], decoy, 'decoy.txt'), b'decoy\n')
        tags.append('%s:%s%s' % (scope, tag, '+decoy' if decoy else ('@' + ('canon' if names[0] == py_key(mid) else 'legacy'))))
        layer = {'meta': META_STATE[meta_key], 'files': read_tree(d)}
        layers_meta.append((scope, names[0], tag))
        if spec[0] == 'ok':
            spec = spec_layer(layer, spec[1], rn.git, tab)
            if spec[0] == 'ok': cur = spec[1]
    # model input: what is on disk below each base
    scope_terms = []; disk = {}; resolved = []
    for scope in ('global', 'machine', 'project'):
        base = bases[scope]; present = []
        if os.path.isdir(base):
            for n in sorted(os.listdir(base)):
                p = os.path.join(base, n)
                if os.path.isdir(p):
                    fs = read_tree(p)
                    present.append((n, classify_meta(fs), fs))
        disk[scope] = [(n, m, sorted(fs)) for n, m, fs in present]
        scope_terms.append(cq.clist([cq.cpair(cq.cstr(n), cq.cpair(C_META[m], c_files(fs))) for n, m, fs in present]))
        got = rn.overlay_path(mid, scope)
        resolved.append({'scope': scope, 'dir': got})
        if os.path.dirname(got) != base:
            resolve_cases.append(('escape', scope, got))
        resolve_cases.append((scope, [n for n, _, _ in present], os.path.basename(got)))
    # the real binary
    rc, doc, out, err = sb.cli_json(['deploy', '--apply', '--yes'])
    skills = os.path.join(rn.codex_home, 'skills')
    deployed_all = read_tree(rn.codex_home) if os.path.isdir(rn.codex_home) else {}
    deployed_all = {p: b for p, b in deployed_all.items() if not os.path.basename(p).startswith('.agentpack.manifest.')}
    subdirs = sorted({p.split('/')[1] for p in deployed_all if p.startswith('skills/') and p.count('/') >= 2})
    observed = None; code = None
    if doc and doc.get('ok') and rc == 0:
        pref = 'skills/%s/' % subdirs[0] if subdirs else None
        observed = {p[len(pref):]: b for p, b in deployed_all.items()} if pref else {}
    else:
        code = (doc['errors'][0]['code'] if doc and doc.get('errors') else 'NO_ENVELOPE')
    # the library function on the same world (every file of its out dir is observed, no target-side filter in between)
    lib_out = os.path.join(sb.root, 'libout')
    shutil.rmtree(lib_out, ignore_errors=True)
    lr = rn.avh.call({'op': 'compose', 'id': mid, 'upstream': os.path.join(sb.repo, 'modules/m'), 'layers': resolved, 'out': lib_out})
    lib_tree = read_tree(lib_out) if lr.get('ok') else None
    lib_code = None if lr.get('ok') else (lr.get('code') or 'E_UNEXPECTED')
    rec = {'stream': 'compose', 'scenario_seed': seed, 'meta_home': rn.meta_home, 'module_id': mid, 'layers': layers_meta, 'tags': tags,
           'upstream': {r: b.decode('utf-8', 'replace') for r, b in sc['upstream'].items()}, 'disk': disk,
           'spec': (spec[0], spec[1] if spec[0] == 'err' else {r: b.decode('utf-8', 'replace') for r, b in spec[1].items()}) + ((spec[2],) if spec[0] == 'err' else ()),
           'impl': {'rc': rc, 'code': code, 'deployed': None if observed is None else {r: b.decode('utf-8', 'replace') for r, b in observed.items()},
                    'stderr': err[:300], 'message': (doc['errors'][0].get('message', '')[:300] if doc and doc.get('errors') else '')},
           'lib': {'code': lib_code, 'tree': None if lib_tree is None else {r: b.decode('utf-8', 'replace') for r, b in lib_tree.items()}}}
    viol = []
    # ---- the property, on the implementation's behaviour
    if observed is not None:
        if len(subdirs) > 1: viol.append('more than one skill directory deployed for one module')
        bad = [p for p in deployed_all if has_meta(p)]
        if bad: viol.append('a path with a .agentpack/.git component reached the target: %s' % bad[:3])
        if any(b in (b'noise\n', b'upstream meta\n') for b in deployed_all.values()): viol.append('metadata file content reached the target')
        if spec[0] == 'err':
            viol.append('overlay that must be refused (%s) was deployed' % spec[2])
            if rn.meta_home and spec[2] == 'mixed dir+patch':
                viol[-1] = 'K13d:' + viol[-1]
        elif observed != spec[1]:
            diffp = sorted(p for p in set(observed) | set(spec[1]) if observed.get(p) != spec[1].get(p))
            viol.append('deployed bytes differ from the layer-precedence result at %s' % diffp[:4])
    else:
        if deployed_all: viol.append('refused composition left partial output in the target: %s' % sorted(deployed_all)[:3])
        if spec[0] == 'ok':
            viol.append('composition that must succeed was refused with %s' % code)
        elif ERR_CODES.get(code, 2) != spec[1]:
            viol.append('refusal (%s) carries code %s instead of the stable code for that cause' % (spec[2], code))
    if lib_tree is not None:
        bad = [p for p in lib_tree if has_meta(p)]
        if bad: viol.append('compose_module_tree left a path with a .agentpack/.git component in the module tree: %s' % bad[:3])
        if spec[0] == 'err': viol.append('compose_module_tree accepted an overlay that must be refused (%s)' % spec[2])
        elif lib_tree != spec[1] and not bad:
            viol.append('compose_module_tree output differs from the layer-precedence result at %s' % sorted(p for p in set(lib_tree) | set(spec[1]) if lib_tree.get(p) != spec[1].get(p))[:4])
    else:
        if spec[0] == 'ok': viol.append('compose_module_tree refused (%s) a composition that must succeed' % lib_code)
        elif ERR_CODES.get(lib_code, 2) != spec[1]: viol.append('compose_module_tree refusal (%s) carries code %s instead of the stable code for that cause' % (spec[2], lib_code))
    # ---- Coq case
    if observed is not None: obs_t = '(OOk %s)' % c_files(observed)
    else: obs_t = '(OErr %d)' % ERR_CODES.get(code, 2)
    lib_t = '(OOk %s)' % c_files(lib_tree) if lib_tree is not None else '(OErr %d)' % ERR_CODES.get(lib_code, 2)
    tab_t = cq.clist([cq.cpair(cq.cstr(p), cq.cstr(t), cq.copt(r, cq.cstr)) for p, t, r in tab])
    term = cq.cpair(cq.cstr(mid), cq.cstr(sha_hex(mid)), c_files(dict(sc['upstream'], **sc['up_noise'])),
                    cq.clist(scope_terms), tab_t, cq.cpair(obs_t, lib_t))
    rterms = []
    for rc_ in resolve_cases:
        if rc_[0] == 'escape':
            viol.append('overlay path resolves outside the scope base: %s' % rc_[2]); continue
        scope, present, name = rc_
        rterms.append((cq.cpair(cq.cstr(mid), cq.cstr(sha_hex(mid)), cq.clist([cq.cstr(n) for n in present]), cq.cstr(name)),
                       {'stream': 'resolve', 'module_id': mid, 'scope': scope, 'present': present, 'impl_name': name, 'scenario_seed': seed}))
    return {'rec': rec, 'viol': viol, 'term': term, 'rterms': rterms, 'outcome': 'ok' if observed is not None else code,
            'spec_kind': spec[0] if spec[0] == 'ok' else 'err:%s' % spec[2]}

REPORT_CAP = 6
def report(ctx, what, case, no_input=False, _seen={}):
    """ctx.violation with a cap per message class, so that a broken build does not write thousands of replay files"""
    k = (id(ctx), what.split(' at [')[0].split(' (')[0][:60], no_input)
    _seen[k] = _seen.get(k, 0) + 1
    if _seen[k] <= REPORT_CAP:
        ctx.violation(what, case, no_input=no_input)
    elif _seen[k] == REPORT_CAP + 1:
        ctx.notes.append('further violations of class %r not written as replays (cap %d)' % (k[1], REPORT_CAP))

def run_compose(ctx, stream, seeds, meta_home):
    """meta_home: AGENTPACK_HOME below a directory named .agentpack (like the default ~/.agentpack).  Behaviour must be the same as
    anywhere else (fs::list_files filters on the relative path since the F10 fix); a mixed overlay that is deployed there instead of
    being refused is the regression class K13d."""
    workers = max(1, min(8, NCPU, len(seeds)))
    chunks = [seeds[i::workers] for i in range(workers)]
    def work(chunk):
        rn = Runner('c13' + stream[-1:], meta_home=meta_home)
        try:
            return [(s, run_scenario(rn, s)) for s in chunk]
        finally:
            rn.close()
    results = {}
    with concurrent.futures.ThreadPoolExecutor(max_workers=workers) as ex:
        for part in ex.map(work, chunks):
            for s, r in part: results[s] = r
    cases = []; rcases = []
    suffix = ' [AGENTPACK_HOME ends in .agentpack]' if meta_home else ''
    for i, s in enumerate(seeds):
        r = results[s]
        f10 = False
        for v in r['viol']:
            if v.startswith('K13d:'):
                f10 = True
                if ctx.is_known('K13d'):
                    ctx.known_finding('K13d', 'mixed directory+patch overlay below a directory named .agentpack is deployed instead of refused (fs::list_files absolute-path filter, DESIGN F10)')
                    continue
                v = v[5:]
            report(ctx, v + suffix, r['rec'])
        ctx.count(stream, key=(tuple(r['rec']['tags']), r['spec_kind'], r['rec']['module_id'][:8]), nontrivial=len(r['rec']['layers']) >= 1,
                  tags=['layers:%d' % len(r['rec']['layers']), 'outcome:%s' % r['outcome']] + (['F10-differs'] if f10 else [])
                       + [t.split(':', 1)[1].split('@')[0].split('+')[0] for t in r['rec']['tags']])
        cases.append((r['term'], r['rec']))
        rcases.extend(r['rterms'])
        if i < 2: ctx.sample({k: r['rec'][k] for k in ('stream', 'module_id', 'tags', 'spec', 'impl')})
    for c in ctx.corr(stream, HEADER, 'check_compose', 'compose_case', cases, shard_chars=30000):
        report(ctx, 'model and implementation disagree on the composed module tree / refusal code' + suffix, c, no_input=True)
    for t, c in rcases:
        ctx.count(stream + '_resolve', key=(c['module_id'][:8], c['scope'], tuple(c['present']), c['impl_name']), nontrivial=bool(c['present']))
    for c in ctx.corr(stream + '_resolve', HEADER, 'check_resolve', 'str * str * list str * str', rcases):
        report(ctx, 'model and implementation disagree on the overlay directory chosen (canonical / legacy fallback)' + suffix, c, no_input=True)

# ------------------------------------------------------------------ overlay dir resolution on its own (many ids)

def run_resolve(ctx, n):
    rng = ctx.rng
    rn = Runner('c13r')
    cases = []
    try:
        bases = rn.learn_bases()
        ids = [i for i in gen_ids(rng, 4 * n) if i and '\0' not in i and not i.startswith('-') and len(i.encode()) < 200][:n]
        for mid in ids:
            scope = rng.choice(['global', 'machine', 'project'])
            base = bases[scope]
            shutil.rmtree(os.path.join(rn.sb.repo, 'overlays'), ignore_errors=True); shutil.rmtree(os.path.join(rn.sb.repo, 'projects'), ignore_errors=True)
            cands = [py_key(mid), py_key(mid, None), py_key('other'), py_sanitize(mid)]
            if py_legacy_safe(mid) and '/' not in mid: cands.append(mid)
            present = sorted({c for c in cands if rng.random() < 0.4 and c and len(c.encode()) < 250})
            for c in present:
                try: os.makedirs(os.path.join(base, c), exist_ok=True)
                except OSError: present = [x for x in present if x != c]
            present = sorted(n_ for n_ in (os.listdir(base) if os.path.isdir(base) else []))
            got = rn.overlay_path(mid, scope)
            case = {'stream': 'resolve', 'module_id': mid, 'scope': scope, 'present': present, 'impl_dir': os.path.relpath(got, rn.sb.repo)}
            if os.path.dirname(got) != base:
                report(ctx, 'overlay directory is not a single component below the scope base', case)
            exp = py_key(mid)
            if exp not in present:
                if py_key(mid, None) != exp and py_key(mid, None) in present: exp = py_key(mid, None)
                elif py_legacy_safe(mid) and mid in present: exp = mid
            if os.path.basename(got) != exp:
                report(ctx, 'overlay directory is not canonical-key / unbounded-key / raw-id in that order', case)
            ctx.count('resolve', key=(mid, scope, tuple(present)), nontrivial=bool(present), tags=['present:%d' % len(present), 'chosen:' + ('canonical' if os.path.basename(got) == py_key(mid) else 'fallback')])
            cases.append((cq.cpair(cq.cstr(mid), cq.cstr(sha_hex(mid)), cq.clist([cq.cstr(x) for x in present]), cq.cstr(os.path.basename(got))), case))
    finally:
        rn.close()
    for c in ctx.corr('resolve', HEADER, 'check_resolve', 'str * str * list str * str', cases):
        report(ctx, 'model and implementation disagree on the overlay directory chosen', c, no_input=True)

# ------------------------------------------------------------------ known findings: replay the witnesses of the _refuted theorems

def two_module_world(rn, ids):
    sb = rn.sb
    rn.reset()
    man = manifest_for(rn.codex_home, ids[0])
    man['modules'] = [{'id': i, 'type': 'skill', 'tags': ['base'], 'source': {'local_path': {'path': 'modules/m%d' % k}}} for k, i in enumerate(ids)]
    world.write_config(sb.repo, man)
    for k in range(len(ids)):
        world.write(os.path.join(sb.repo, 'modules/m%d/SKILL.md' % k), SK_HEAD + 'body\n')
        world.write(os.path.join(sb.repo, 'modules/m%d/f.txt' % k), 'upstream of module %d\n' % k)

def finding(ctx, kid, reproduced, what, case):
    if not reproduced:
        ctx.notes.append('%s witness no longer reproduces on the current binary' % kid)
        return
    if ctx.is_known(kid):
        ctx.known_finding(kid, what)
    else:
        case = dict(case); case['class'] = kid
        report(ctx, what, case)

def replay_known(ctx, list_files_absolute):
    rn = Runner('c13k')
    try:
        sb = rn.sb
        # K13a: a real 40-bit SHA-256 prefix collision
        assert sha_hex(WIT_A) == WIT_SHA_A and sha_hex(WIT_B) == WIT_SHA_B
        two_module_world(rn, [WIT_A, WIT_B])
        da = rn.overlay_path(WIT_A, 'global'); db = rn.overlay_path(WIT_B, 'global')
        rc, doc, _, _ = sb.cli_json(['overlay', 'edit', WIT_A, '--scope', 'global', '--sparse', '--yes'], extra_env={'EDITOR': ''})
        world.write(os.path.join(da, 'f.txt'), 'edited for module A only\n')
        sb.cli_json(['deploy', '--apply', '--yes'])
        dep = read_tree(rn.codex_home)
        leaked = [p for p, b in dep.items() if b == b'edited for module A only\n']
        ctx.count('known', key='K13a', tags=['K13a'])
        finding(ctx, 'K13a', da == db and len(leaked) == 2,
                'two module ids whose sanitised 64-char prefixes and first 40 SHA-256 bits coincide resolve to one overlay directory; an edit for one is deployed into both',
                {'stream': 'known', 'ids': [WIT_A, WIT_B], 'overlay_dir': [da, db], 'deployed_with_edit': leaked})
        # K13b: a module id equal to another module's fs key (legacy raw-id fallback)
        a = 'x'; b = py_key('x')
        two_module_world(rn, [a, b])
        before = rn.overlay_path(b, 'global')
        rc, doc, _, _ = sb.cli_json(['overlay', 'edit', a, '--scope', 'global', '--yes'], extra_env={'EDITOR': ''})
        da = rn.overlay_path(a, 'global'); db = rn.overlay_path(b, 'global')
        rc2, doc2, _, _ = sb.cli_json(['overlay', 'edit', b, '--scope', 'global', '--yes'], extra_env={'EDITOR': ''})
        world.write(os.path.join(da, 'f.txt'), 'edited for module x only\n')
        sb.cli_json(['deploy', '--apply', '--yes'])
        dep = read_tree(rn.codex_home)
        leaked = [p for p, bb in dep.items() if bb == b'edited for module x only\n']
        ctx.count('known', key='K13b', tags=['K13b'])
        finding(ctx, 'K13b', da == db and before != db and len(leaked) == 2,
                'a module whose id equals another module\'s fs key resolves (raw-id legacy fallback) to that module\'s overlay directory; `overlay edit` reuses it and the edit is deployed into both',
                {'stream': 'known', 'ids': [a, b], 'overlay_dir': [da, db], 'dir_before_edit': before,
                 'second_edit_created': doc2 and doc2.get('data', {}).get('created'), 'deployed_with_edit': leaked})
        # K13c: a patch file with a second, header-less diff section
        two_module_world(rn, ['skill:a'])
        world.write(os.path.join(sb.repo, 'modules/m0/f.txt'), 'l1\nl2\nl3\n'); world.write(os.path.join(sb.repo, 'modules/m0/g.txt'), 'g1\n')
        d = rn.overlay_path('skill:a', 'global')
        world.write(os.path.join(d, '.agentpack/overlay.json'), META_JSON['patch'])
        ptxt = '--- a/f.txt\n+++ b/f.txt\n@@ -1,3 +1,3 @@\n l1\n-l2\n+L2\n l3\ndiff --git a/g.txt b/g2.txt\nsimilarity index 100%\nrename from g.txt\nrename to g2.txt\n'
        world.write(os.path.join(d, '.agentpack/patches/f.txt.patch'), ptxt)
        rc, doc, _, _ = sb.cli_json(['deploy', '--apply', '--yes'])
        dep = read_tree(rn.codex_home)
        ctx.count('known', key='K13c', tags=['K13c'])
        finding(ctx, 'K13c', bool(doc and doc.get('ok')) and 'skills/a/g2.txt' in dep and 'skills/a/g.txt' not in dep and header_ok(ptxt, 'f.txt') and multi_section(ptxt),
                'a patch file carrying an extra header-less diff section passes the single-diff validation and changes a file other than the one it is named after (g.txt renamed by f.txt.patch)',
                {'stream': 'known', 'patch': ptxt, 'deployed': sorted(dep)})
    finally:
        rn.close()
    # K13d (DESIGN F10): AGENTPACK_HOME below a directory named .agentpack
    rn = Runner('c13k', meta_home=True)
    try:
        sb = rn.sb
        two_module_world(rn, ['skill:a'])
        world.write(os.path.join(sb.repo, 'modules/m0/g.txt'), 'g1\n')
        d = rn.overlay_path('skill:a', 'global')
        world.write(os.path.join(d, '.agentpack/overlay.json'), META_JSON['patch'])
        world.write(os.path.join(d, '.agentpack/patches/f.txt.patch'), rn.git.diff('f.txt', b'upstream of module 0\n', b'patched\n'))
        world.write(os.path.join(d, 'g.txt'), 'stray override\n')
        rc, doc, _, _ = sb.cli_json(['deploy', '--apply', '--yes'])
        ctx.count('known', key='K13d', tags=['K13d'])
        finding(ctx, 'K13d', bool(doc and doc.get('ok')),
                'with AGENTPACK_HOME below a directory named .agentpack (the default ~/.agentpack) a mixed directory+patch overlay is not refused: fs::list_files filters on the absolute path (DESIGN F10 regressed)',
                {'stream': 'known', 'agentpack_home': sb.aphome, 'list_files_absolute_filter': list_files_absolute,
                 'envelope_ok': bool(doc and doc.get('ok')), 'code': (doc['errors'][0]['code'] if doc and doc.get('errors') else None)})
    finally:
        rn.close()

def probe_list_files():
    """does fs::list_files (current /repo tree) drop everything below a directory named .agentpack?"""
    d = new_scratch('c13probe')
    try:
        world.write(os.path.join(d, '.agentpack', 'ov', 'f.txt'), 'x')
        with Avh() as avh:
            r = avh.call({'op': 'list_files', 'dir': os.path.join(d, '.agentpack', 'ov')})
        return r.get('ok') == []
    finally:
        rm_scratch(d)

# ------------------------------------------------------------------ entry

def run(ctx):
    quick = ctx.tier == 'quick'
    ctx.rule = ('ids: structured id families (type:name, random unicode incl. controls/astral, long common prefixes equal after truncation, ids equal '
                'after sanitising, ids that are other ids\' bounded/unbounded keys) through avh fs_key/sanitize/legacy_safe; oracle = key-safety predicate, '
                'closed form, pairwise distinctness. resolve: ids x random subsets of {canonical, unbounded, raw id, foreign} directories x scope through '
                '`overlay path --json`. compose: skill module tree x subset of the three scopes x {dir, patch, 24 malformed/odd kinds} x placement '
                '(canonical / unbounded key / raw id / canonical+decoy), layers generated against the expected lower state, patches by `git diff --no-index`; '
                'observed = files written by `deploy --apply --yes --json` into an empty target (or error code + empty target); compose_home = same with '
                'AGENTPACK_HOME=<home>/.agentpack. non-trivial = id changed by sanitising/truncation, >=1 directory present, >=1 layer; distinct = distinct '
                'id / (id, scope, present set) / (layer tags, outcome class, id)')
    ctx.trusted = ['Coq 8.16.1 kernel + vm_compute', 'hand-written models coq/Model/Ids.v, coq/Model/Overlay.v (JSON parsing of overlay.json, symlinks, '
                   'single-file upstream roots not modelled)', 'tools/gen_tables.py (MODULE_FS_KEY_PREFIX_MAX_LEN)',
                   'Python hashlib SHA-256 (hash oracle values) and the harness\'s own `git diff --no-index` / `git apply` calls (patch oracle values)',
                   'correspondence harness (generators, avh ops fs_key/sanitize/legacy_safe/list_files, CLI driver)']
    ctx.assumptions = ['sha oracle returns 64 lowercase hex digits (premise sha_ok); for C13_no_collision_partial: the two ids differ in their first 40 SHA-256 bits (not K13a) and neither is the other\'s fs key (not K13b)',
                       '`git apply` is represented per file (patch text, target text) -> new text; adequate only for single-section patch texts (not K13c)',
                       ]
    ok = ctx.proof_phase(extra_targets=['Corr/Check_C13.vo'])
    # the bound used by the Python-side oracle is the one the proofs used
    try:
        tv = open(os.path.join(COQ, 'Gen', 'Tables.v')).read()
        import re
        m = re.search(r'Definition fs_key_prefix_max : N := (\d+)\.', tv)
        global PREFIX_MAX
        PREFIX_MAX = int(m.group(1))
    except Exception as e:
        raise InfraError('cannot read fs_key_prefix_max from Gen/Tables.v: %s' % e)
    if ctx.replay:
        return replay_case(ctx)
    absolute = probe_list_files()
    ctx.notes.append('fs::list_files filters on the %s path in the current tree' % ('ABSOLUTE' if absolute else 'relative'))
    replay_known(ctx, absolute)
    run_ids(ctx, 10000 if quick else 100000, 10000 if quick else 40000)
    run_machine_ids(ctx, 1500 if quick else 30000, 60 if quick else 1200)
    run_resolve(ctx, 120 if quick else 1500)
    n = 260 if quick else 3000
    seeds = [ctx.rng.randrange(1 << 48) for _ in range(n)]
    run_compose(ctx, 'compose', seeds, meta_home=False)
    n2 = 60 if quick else 600
    seeds2 = [ctx.rng.randrange(1 << 48) for _ in range(n2)]
    run_compose(ctx, 'compose_home', seeds2, meta_home=True)

def replay_case(ctx):
    rec = json.load(open(ctx.replay))
    st = rec.get('stream')
    if st == 'compose' and 'scenario_seed' in rec:
        home = bool(rec.get('meta_home'))
        rn = Runner('c13p', meta_home=home)
        try:
            r = run_scenario(rn, rec['scenario_seed'])
        finally:
            rn.close()
        for v in r['viol']:
            if v.startswith('K13d:') and ctx.is_known('K13d'):
                ctx.known_finding('K13d', 'mixed directory+patch overlay below a directory named .agentpack is deployed instead of refused (DESIGN F10)'); continue
            report(ctx, v, r['rec'])
        for c in ctx.corr('replay', HEADER, 'check_compose', 'compose_case', [(r['term'], r['rec'])]):
            report(ctx, 'model and implementation disagree on the composed module tree / refusal code', c, no_input=True)
        ctx.count('replay', key=rec['scenario_seed'])
    elif st == 'ids':
        mid = ''.join(chr(c) for c in rec['id_codepoints'])
        with Avh() as avh:
            k = avh.call({'op': 'fs_key', 'id': mid}).get('out')
        bad = key_safety(k) if isinstance(k, str) else 'no key'
        if bad: report(ctx, 'derived directory name is unsafe: ' + bad, rec)
        if k != py_key(mid): report(ctx, 'fs key is not <sanitised bounded prefix>--<sha256[:10]>', rec)
        ctx.count('replay', key=mid)
    else:
        replay_known(ctx, probe_list_files())
