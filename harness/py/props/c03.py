"""C03 — Writes stay inside declared target roots, the config repo and agentpack home (render side)."""
import os, re, json, hashlib, concurrent.futures
from vlib.common import *
from vlib import coqrun as cq
from vlib.impl import Sandbox, snap_diff
from vlib import world
from props import _render as R

HEADER = 'From AP Require Import Corr.Check_C03.\nOpen Scope N_scope.\n'
SB = R.SB

# ---------------------------------------------------------------- hostile generators

PIECES = ['..', '.', '', 'x', 'team', 'ünï', 'a b', 'y' * 120, '..x', '...', '~', 'C:', '-', '‮', 'x\ty']

def hostile_name(rng):
    k = rng.random()
    if k < 0.12:
        return SB + '/canary/esc' + rng.choice(['', '/deep', '/../x'])           # absolute, inside the sandbox
    n = rng.choice([1, 2, 2, 3, 4])
    parts = [rng.choice(PIECES) for _ in range(n)]
    ups = 0
    for i, p in enumerate(parts):                                                # at most 3 ".." so escapes stay in the sandbox
        if p == '..':
            ups += 1
            if ups > 3: parts[i] = 'x'
    if parts.count('y' * 120) > 1:                                               # the temp dir of a module is named after the sanitised id: stay below NAME_MAX
        parts = [p if p != 'y' * 120 or i == parts.index('y' * 120) else 'y' for i, p in enumerate(parts)]
    sep = rng.choice(['/', '/', '/', '\\', '//'])
    name = sep.join(parts)
    if rng.random() < 0.12: name = '/' + name if not name.startswith('/') else name
    if name.startswith('/') and not name.startswith(SB):
        name = SB + '/canary' + name                                             # keep absolute names inside the sandbox
    return name

def hostile_id(rng, mtype):
    k = rng.random()
    if k < 0.12:
        # further ':' inside the name are ordinary characters of ONE directory name, whatever stands between them
        segs = [rng.choice(['..', '..', '.', '', 'x', 'team', SB.lstrip('/') + '/canary/c']) for _ in range(rng.choice([2, 3, 4]))]
        return mtype + ':' + ':'.join(segs) + rng.choice(['', ':x', ':esc'])
    pre = rng.choice([mtype, mtype, 'skill', 'x', '', ':', 'a:b'])
    if k < 0.8: return pre + ':' + hostile_name(rng)
    if k < 0.9: return hostile_name(rng).replace(SB, 'S')                         # no ':' at all -> sanitised
    return pre + ':' + rng.choice(['ok', 'team/x', 'x'])

def hostile_tree(rng, mtype):
    """valid main file + extra files with hostile names (backslashes, unicode, dots, long)"""
    files, fm_ok = R.gen_tree(rng, mtype)
    if rng.random() < 0.45:
        k = rng.random()
        ups = rng.choice([1, 2, 3])
        nm = rng.choice(['..\\' * ups + 'esc.txt', 'a\\b.txt', 'sub\\..\\..\\c.md', '\\' + (SB + '/canary/abs.txt').lstrip('/').replace('/', '\\'),
                         'ünï/ç.md', '..x/y.md', '.../z', 'a b/c d.md', 'L' * 200 + '.md', '\\lead.md', 'trail\\'])
        if mtype == 'skill':
            if nm not in [f[0] for f in files]: files.append((nm, b'hostile\n'))
        elif mtype in ('prompt', 'command') and nm.endswith('.md') and files:
            files = [(nm, files[0][1])]
        elif mtype == 'instructions':
            files.append((nm, b'hostile\n'))
    return files, fm_ok

def gen_hostile_case(rng, docopts):
    case = R.gen_case(rng, docopts, hostile_ids=[hostile_id])
    for m in case['modules']:
        if rng.random() < 0.5:
            m['files'], m['fm_ok'] = hostile_tree(rng, m['type'])
    if case['modules'] and rng.random() < 0.2:
        # two DIFFERENT ids that a sanitiser ([^A-Za-z0-9_-] -> '_') maps to one name: each is validated on its own
        m = rng.choice(case['modules'])
        pre, _, nm = m['id'].partition(':')
        if nm and re.fullmatch(r'[A-Za-z0-9_-]+', nm):
            a, b = rng.sample(['.', '_', ' ', '+', '@'], 2)
            cut = rng.randrange(1, len(nm) + 1)
            oldid = m['id']
            m['id'] = pre + ':' + nm[:cut] + a + 'tw'
            twin = dict(m); twin['id'] = pre + ':' + nm[:cut] + b + 'tw'
            twin['files'], twin['fm_ok'] = hostile_tree(rng, m['type'])
            for pr in case.get('profiles', {}).values():
                for k in ('include_modules', 'exclude_modules'):
                    if oldid in pr.get(k, []):
                        pr[k] = [m['id'] if x == oldid else x for x in pr[k]] + [twin['id']]
            case['modules'].append(twin)
    if case['modules'] and rng.random() < 0.12:
        # a directory overlay adds files to a module after its source was read: their names are checked like the module's own
        m = rng.choice(case['modules'])
        ups = rng.choice([1, 2, 3, 4])
        nm = rng.choice(['..\\' * ups + 'canary\\esc.md', 'sub\\..\\..\\..\\c.md', '\\' + (SB + '/canary/abs.md').lstrip('/').replace('/', '\\'),
                         'ok/extra.md', 'notes.md', 'a\\b.md'])
        case['overlays'] = [[m['id'], rng.choice(['global', 'machine', 'project']), [[nm, 'overlay file\n']]]]
    if 'codex' in case['targets'] and rng.random() < 0.5:
        case['targets']['codex']['options']['codex_home'] = rng.choice([
            'relch', './relch', 'rel/../ch', '../project/up', SB + '/home/x/../ch', '~/../home/ch2', SB + '/home/a/b/../../ch3',
            SB + '/project//', SB + '/project/./', SB + '/project/.codex', SB + '/project/.codex/skills', ' ' + 'sp', '~', '~/',
            SB + '/home/pad ', ' ' + SB + '/home/lead', SB + '/home/tab\t', ' ~/tilde '])
    case['profile'] = 'default' if rng.random() < 0.95 else case['profile']
    case['filter'] = 'all' if rng.random() < 0.9 else case['filter']
    case['version'] = 1
    return case

# ---------------------------------------------------------------- observation + oracle

def lexnorm(p):
    return os.path.normpath(p)

def inside(root, p):
    root = lexnorm(root); p = lexnorm(p)
    return p == root or p.startswith(root.rstrip('/') + '/')

def run_case(args):
    case, extra = args
    sb = Sandbox('c03')
    out = {'bad': [], 'tags': []}
    try:
        sb.git_init_project()
        env = R.extra_env(case, sb)
        a = R.cli_args(case)
        n = len(case['modules'])
        R.write_world(sb, case, list(range(n)), 1)
        for mid, scope, files in case.get('overlays') or []:
            p0_ = sb.cli(['overlay', 'path', '--scope', scope, '--json', '--', mid], extra_env=env)
            try: odoc = json.loads(p0_.stdout.decode('utf-8', 'replace'))
            except Exception: odoc = None
            if odoc and odoc.get('ok'):
                od = odoc['data']['overlay_dir']
                if od.startswith(sb.root):
                    for nm, txt in files:
                        nm = nm.replace(SB, sb.root)
                        try: world.write(os.path.join(od, nm), txt.encode())
                        except OSError: pass
                    out['tags'].append('overlay:' + scope)
        rc, doc, o, e = sb.cli_json(['plan'] + a, extra_env=env)
        plan = R.canon_plan(doc, sb)
        res = {'plans': [plan], 'sbroot': sb.root}
        out['res'] = res
        if plan[0] == 'bad':
            out['bad'].append('plan --json printed no JSON envelope'); return out
        roots = None
        if plan[0] == 'ok':
            rc, ddoc, o, e = sb.cli_json(['doctor'] + a, extra_env=env)
            if ddoc and ddoc.get('ok'):
                res['roots'] = [(r['target'], r['root'].replace(sb.root, SB), bool(r['scan_extras'])) for r in ddoc['data']['roots']]
                roots = [(r['target'], os.path.join(sb.project, r['root'])) for r in ddoc['data']['roots']]
            else:
                res['roots'] = None
                out['bad'].append('plan succeeded but doctor --json failed for the same configuration')
        allowed_dirs = [sb.aphome] + [p for _, p in (roots or [])]
        def audit(before, after, what, allowed):
            d = snap_diff(before, after)
            for p in sorted(d):
                if p.startswith(sb.canary):
                    out['bad'].append('%s changed the canary tree: %s' % (what, p.replace(sb.root, SB)))
                elif any(inside(r, p) for r in allowed):
                    continue
                elif (d[p][1] == '<dir>' or d[p][0] == '<dir>') and any(inside(p, r) or r.startswith(p.rstrip('/') + '/') for r in allowed):
                    continue                      # an ancestor directory of a declared root (also of its raw spelling, e.g. x in x/../ch)
                else:
                    out['bad'].append('%s touched %s, outside every root reported for the selected targets and outside AGENTPACK_HOME'
                                      % (what, p.replace(sb.root, SB)))
        before = sb.snapshot()
        rc, dep, o, e = sb.cli_json(['deploy', '--apply', '--yes'] + a, extra_env=env)
        after = sb.snapshot()
        dep_ok = bool(dep and dep.get('ok'))
        res['deploy'] = ('ok' if dep_ok else 'err', None)
        out['tags'].append('deploy:' + ('ok' if dep_ok else ((dep or {}).get('errors') or [{}])[0].get('code', 'nojson')))
        audit(before, after, 'deploy --apply', allowed_dirs)
        if plan[0] != 'ok' and snap_diff(before, after) and any(not p.startswith(sb.aphome) for p in snap_diff(before, after)):
            out['bad'].append('planning failed (%s) but deploy --apply wrote outside AGENTPACK_HOME' % plan[1])
        # manifests
        mans = {}
        for p, v in after.items():
            mm = re.fullmatch(r'\.agentpack\.manifest\.(.+)\.json', os.path.basename(p))
            if mm and isinstance(v, bytes) and not p.startswith(sb.aphome):
                try: md = json.loads(v)
                except Exception: continue
                ents = [(f['path'], f.get('module_ids', []), f.get('sha256')) for f in md.get('managed_files', [])]
                mdir = os.path.dirname(p)
                # name the manifest's directory by the root string doctor reported (roots may be relative / unnormalised)
                rep = [r for (rt, r, _) in (res.get('roots') or []) if rt == md.get('tool')
                       and lexnorm(os.path.join(sb.project, r.replace(SB, sb.root))) == lexnorm(mdir)]
                if plan[0] == 'ok' and res.get('roots') is not None and not rep:
                    out['bad'].append('a target manifest was written in %s, which is not a root reported for target %s'
                                      % (mdir.replace(sb.root, SB), md.get('tool')))
                mans[(md.get('tool'), rep[0] if rep else mdir.replace(sb.root, SB))] = ents
                for path, _, _ in ents:
                    comps = path.split('/')
                    if path.startswith('/') or '..' in comps or '\\' in path or path == '':
                        out['bad'].append('manifest %s records the entry %r (not a root-relative path without parent components)'
                                          % (p.replace(sb.root, SB), path))
        res['manifests'] = mans
        listed = {}
        for (tool, root), ents in mans.items():
            for path, ids, sha in ents:
                listed.setdefault((tool, lexnorm(os.path.join(sb.project, root.replace(SB, sb.root), path))), []).append((root, path, ids, sha))
        if plan[0] == 'ok':
            files = {}
            for t, path, sha in plan[1]:
                ap = R.abs_norm(path, sb)
                data = after.get(ap) if isinstance(after.get(ap), bytes) else None
                files[(t, path)] = {'bytes': data, 'sha_plan': sha, 'listed': listed.get((t, ap), [])}
                if dep_ok:
                    if data is None:
                        out['bad'].append('planned output %s:%s was not deployed' % (t, path))
                    elif len(files[(t, path)]['listed']) != 1:
                        out['bad'].append('deployed file %s:%s is listed in %d target manifests (must be exactly one)'
                                          % (t, path, len(files[(t, path)]['listed'])))
                    if roots is not None and not any(rt == t and inside(rp, ap) for rt, rp in roots):
                        out['bad'].append('desired path %s:%s is outside every root doctor reports for target %s' % (t, path, t))
            res['files'] = files
        # further mutating commands on the deployed world
        if dep_ok and plan[0] == 'ok' and plan[1]:
            if extra == 'restore':
                victim = R.abs_norm(plan[1][0][1], sb)
                try: os.remove(victim)
                except OSError: pass
                b2 = sb.snapshot(); sb.cli_json(['evolve', 'restore', '--yes'] + a, extra_env=env); a2 = sb.snapshot()
                audit(b2, a2, 'evolve restore', allowed_dirs); out['tags'].append('cmd:evolve restore')
            elif extra == 'rollback':
                sid = (dep.get('data') or {}).get('snapshot_id')
                if sid:
                    b2 = sb.snapshot(); sb.cli_json(['rollback', '--to', sid, '--yes'], extra_env=env); a2 = sb.snapshot()
                    audit(b2, a2, 'rollback', allowed_dirs); out['tags'].append('cmd:rollback')
            elif extra == 'bootstrap':
                ch = None
                for t, rp in (roots or []):
                    pass
                boot = [os.path.join(sb.home, '.claude'), os.path.join(sb.project, '.claude'), os.path.join(sb.project, '.codex/skills')]
                cho = case['targets'].get('codex', {}).get('options', {}).get('codex_home')
                # the codex home as the implementation itself reports it for deploy (doctor/plan roots): bootstrap must
                # resolve the same directory (two resolvers: targets/util.rs codex_home_from_options, cli/util.rs codex_home_for_manifest)
                rep = [rp for t, rp in (roots or []) if t == 'codex' and rp.endswith('/skills') and not rp.endswith('/.codex/skills')]
                rep += [os.path.dirname(rp) + '/skills' for t, rp in (roots or []) if t == 'codex' and rp.endswith('/prompts')]
                if rep:
                    boot.append(rep[0])
                elif isinstance(cho, str) and cho.strip():
                    c2 = cho.replace(SB, sb.root)
                    if c2.startswith('~/'): c2 = os.path.join(sb.home, c2[2:])
                    boot.append(os.path.join(sb.project, c2, 'skills'))
                elif (case['codex_env'] or '').strip():
                    c2 = case['codex_env'].replace(SB, sb.root)
                    if c2.startswith('~/'): c2 = os.path.join(sb.home, c2[2:])
                    boot.append(os.path.join(sb.project, c2, 'skills'))
                else:
                    boot.append(os.path.join(sb.home, '.codex/skills'))
                b2 = sb.snapshot(); sb.cli_json(['bootstrap', '--yes'] + a, extra_env=env); a2 = sb.snapshot()
                audit(b2, a2, 'bootstrap', allowed_dirs + boot); out['tags'].append('cmd:bootstrap')
        return out
    finally:
        sb.close()

# ---------------------------------------------------------------- corpus: the repaired defects

def corpus_cases():
    sk = [('SKILL.md', R.SKILL_OK.encode())]
    def base(mods, targets=None, **kw):
        c = {'version': 1, 'targets': targets or {'codex': {'scope': 'both', 'options': {}}},
             'profiles': {'default': {'include_tags': ['a'], 'include_modules': [], 'exclude_modules': []}},
             'modules': mods, 'profile': 'default', 'filter': 'all', 'codex_env': None}
        c.update(kw); return c
    def mod(mid, ty, files, fm=True):
        return {'id': mid, 'type': ty, 'enabled': True, 'tags': ['a'], 'targets': [], 'files': files, 'fm_ok': fm}
    return [
        ('F1 skill:../../x', base([mod('skill:../../x', 'skill', sk)]), 'reject'),
        ('F1 skill:<abs>', base([mod('skill:' + SB + '/canary/x', 'skill', sk)]), 'reject'),
        ('F1 nested name keeps working', base([mod('skill:team/x', 'skill', sk)]), 'ok'),
        ('F1b skill file ..\\..\\..\\esc.txt', base([mod('skill:ok', 'skill', sk + [('..\\..\\..\\esc.txt', b'E')])]), 'reject'),
        ('F1b skill file \\abs', base([mod('skill:ok', 'skill', sk + [('\\' + (SB + '/canary/abs.txt').lstrip('/').replace('/', '\\'), b'E')])]), 'reject'),
        ('F1b prompt ..\\x.md', base([mod('prompt:p', 'prompt', [('..\\x.md', b'hi\n')])]), 'reject'),
        ('ids equal after sanitising: skill:my_tool is checked although skill:my.tool passed',
         base([mod('skill:my.tool', 'skill', sk), mod('skill:my_tool', 'skill', sk + [('..\\..\\..\\escaped\\note.md', b'E')])]), 'reject'),
        ('ids equal after sanitising: prompt:a b / prompt:a_b',
         base([mod('prompt:a b', 'prompt', [('a.md', b'hi\n')]), mod('prompt:a_b', 'prompt', [('..\\x.md', b'hi\n')])]), 'reject'),
        ('overlay file ..\\..\\..\\canary\\esc.md is name-checked like the module\'s own files',
         base([mod('skill:ok', 'skill', sk)], overlays=[['skill:ok', 'global', [['..\\..\\..\\..\\canary\\esc.md', 'E']]]]), 'reject'),
        ('skill:..:..:..:..:canary_x is ONE directory name (claude_code skills on)',
         base([mod('skill:..:..:..:..:canary_x', 'skill', sk)], targets={'claude_code': {'scope': 'both', 'options': {'write_user_skills': True, 'write_repo_skills': True}}}), 'ok'),
        ('skill::<abs> is ONE directory name (claude_code skills on)',
         base([mod('skill::' + SB.lstrip('/') + '/canary/abs_skill', 'skill', sk)], targets={'claude_code': {'scope': 'both', 'options': {'write_user_skills': True, 'write_repo_skills': True}}}), 'okorreject'),
        ('F13 codex_home=<project>//', base([mod('instructions:i', 'instructions', [('AGENTS.md', b'hi\n')])],
                                            targets={'codex': {'scope': 'both', 'options': {'codex_home': SB + '/project//'}}}), 'ok'),
    ]

def run(ctx):
    quick = ctx.tier == 'quick'
    ctx.rule = ('hostile_ids: manifests whose module ids come from a grammar of ":" "/" "\\" ".." "." leading "/" (absolute, pointing into the '
                'sandbox canary) unicode / bidi / tab / 200-char pieces, module trees with hostile file names (backslashes, "..x", "...", '
                'unicode, long), over the six targets x scopes x option values incl. codex_home relative / with ".." / "~/" / equal to or '
                'below the project root; each case: plan, doctor, deploy --apply --yes and one of evolve restore / rollback / bootstrap, '
                'with whole-sandbox snapshot diffs.  non-trivial = deploy wrote at least one file or the configuration was refused for an '
                'unsafe id/name; distinct = distinct (plan outcome, ids, option values).')
    ctx.trusted = ['Coq 8.16.1 kernel + vm_compute', 'hand-written model coq/Model/Render.v + Base/PathR.v (paths lexical: symlinks and the kernel\'s own ".." resolution not modelled)',
                   'tools/gen_tables.py (option tables, fs-key bound)', 'Python harness: sandbox snapshots (os.walk), os.path.normpath as the lexical resolver',
                   'doctor --json as the report of the declared roots']
    ctx.assumptions = ['target roots and their ancestors contain no symlinks', 'HOME and the project root are non-empty absolute paths (env_ok)',
                       'file names returned by the file system are non-empty, contain no "/" and are not "." or ".." (cfg_ok)']
    ctx.proof_phase(extra_targets=['Corr/Check_C03.vo', 'Corr/Check_Deploy.vo'])
    docopts = R.doc_options()
    rng = ctx.rng
    if ctx.replay:
        rep = json.load(open(ctx.replay))
        case = R.case_from_json(rep['case'])
        out = run_case((case, rep.get('extra')))
        for b in out['bad']:
            ctx.violation(b, {'stream': 'hostile_ids', 'case': R.case_json(case), 'extra': rep.get('extra')})
        res = out.get('res') or {'plans': [('bad', '')]}
        p0 = res['plans'][0]
        if not out['bad'] and not case.get('overlays') and p0[0] in ('ok', 'err') and not (p0[0] == 'ok' and (res.get('roots') is None or any(f['bytes'] is None for f in res['files'].values()))):
            R.set_root(res['sbroot'])
            term = cq.cpair(R.coq_cfg(case), R.coq_env(case), R.cs(case['profile']), R.cs(case['filter']), R.coq_obs(res),
                            R.coq_manifests(res) if p0[0] == 'ok' else '[]')
            for c in ctx.corr('hostile_ids', HEADER, 'check_hostile_full', 'case03', [(term, rep)]):
                ctx.violation('model and implementation disagree on desired files / roots / manifest entries', c, no_input=True)
        return
    # ---- histories in which the roots move between deploys (deploy side: deletes come from records)
    from vlib import deploysim as ds
    ds.run_cli_stream(ctx, 10 if quick else 150, 4, props={'C03'}, stream='moved_roots', script=ds.script_moved_roots, setup=ds.setup_moved_roots)
    # manifests with hostile entries (absolute, '..', backslash spellings, duplicates): deletes come from records
    ds.run_lib_stream(ctx, 150 if quick else 2500, props={'C03'})
    # ---- corpus first
    for name, case, expect in corpus_cases():
        out = run_case((case, None))
        rec = {'stream': 'corpus', 'name': name, 'case': R.case_json(case), 'extra': None}
        p = out['res']['plans'][0]
        ctx.count('corpus', key=name, tags=['corpus'])
        if expect == 'reject' and not (p[0] == 'err' and p[1] == 'E_CONFIG_INVALID'):
            ctx.violation('repaired defect is back: %s is no longer refused with E_CONFIG_INVALID (plan: %r)' % (name, p[:2]), rec)
        if expect == 'okorreject' and p[0] not in ('ok', 'err'):
            ctx.violation('%s: neither rendered nor refused (%r)' % (name, p[:2]), rec)
        if expect == 'ok' and p[0] != 'ok':
            ctx.violation('%s: a safe configuration is refused (%r)' % (name, p[:2]), rec)
        for b in out['bad']:
            ctx.violation(name + ': ' + b, rec)
    # ---- generated stream
    n = 260 if quick else 4000
    jobs = []
    for i in range(n):
        jobs.append((gen_hostile_case(rng, docopts), rng.choice(['restore', 'rollback', 'bootstrap', None])))
    with concurrent.futures.ThreadPoolExecutor(max_workers=NCPU) as ex:
        results = list(ex.map(run_case, jobs))
    cases = []
    for i, ((case, extra), out) in enumerate(zip(jobs, results)):
        rec = {'stream': 'hostile_ids', 'index': i, 'case': R.case_json(case), 'extra': extra}
        res = out.get('res') or {'plans': [('bad', '')]}
        p0 = res['plans'][0]
        rec['plan'] = list(p0[:2])
        wrote = p0[0] == 'ok' and len(p0[1]) > 0
        key = hashlib.sha256(repr((p0[:2], [m['id'] for m in case['modules']], sorted((t, sorted(map(str, c['options'].items()))) for t, c in case['targets'].items()))).encode()).hexdigest()[:16]
        ctx.count('hostile_ids', key=key, nontrivial=wrote or (p0[0] == 'err' and p0[1] == 'E_CONFIG_INVALID'),
                  tags=['plan:' + (p0[0] if p0[0] != 'err' else p0[1])] + out['tags'] + ['target:' + t for t in case['targets']])
        if i < 3:
            ctx.sample({'stream': 'hostile_ids', 'ids': [m['id'] for m in case['modules']], 'targets': case['targets'], 'plan': list(p0[:2])[:2]})
        if out['bad']:
            rec['oracle'] = out['bad']
            ctx.violation(out['bad'][0], rec)
            continue
        if p0[0] == 'bad' or (p0[0] == 'ok' and (res.get('roots') is None or res.get('files') is None)):
            continue
        if p0[0] == 'ok' and any(f['bytes'] is None for f in res['files'].values()):
            continue
        if case.get('overlays'):
            continue          # overlays are outside Model/Render.v (composition is C13's model): implementation-side oracle only
        R.set_root(res['sbroot'])
        term = cq.cpair(R.coq_cfg(case), R.coq_env(case), R.cs(case['profile']), R.cs(case['filter']), R.coq_obs(res),
                        R.coq_manifests(res) if p0[0] == 'ok' else '[]')
        cases.append((term, rec))
    ctx.log('hostile_ids: %d cases to Coq, %d chars' % (len(cases), sum(len(c[0]) for c in cases)))
    failing = ctx.corr('hostile_ids', HEADER, 'check_hostile_full', 'case03', cases, shard_chars=50000)
    # a disagreement is first turned into a concrete violation if possible: directed attack on the
    # neighbourhood of the disagreeing case (every module id replaced by escaping names, every tree given
    # an escaping file name), judged by the implementation-side oracle only
    found = 0
    for c in failing[:4]:
        case = R.case_from_json(json.loads(json.dumps(c['case'])))
        # the same configuration through every further mutating command (a disagreement about roots / paths
        # becomes an escape when another command resolves the directory differently)
        for extra in ('bootstrap', 'restore', 'rollback'):
            out = run_case((case, extra))
            ctx.count('attack', key=(c['index'], extra), tags=['attack'])
            if out['bad']:
                found += 1
                ctx.violation(out['bad'][0], {'stream': 'hostile_ids', 'case': R.case_json(case), 'extra': extra, 'derived_from': c['index']})
                break
        if found: break
        for i, m in enumerate(case['modules']):
            for nm in ('../../esc', SB + '/canary/esc', '..\\..\\esc'):
                variant = json.loads(json.dumps(R.case_json(case)))
                variant = R.case_from_json(variant)
                variant['modules'][i]['id'] = '%s:%s' % (m['type'], nm)
                variant['modules'][i]['enabled'] = True
                variant['profiles'][variant['profile']]['include_modules'] = [variant['modules'][i]['id']] if variant['profile'] in variant['profiles'] else []
                out = run_case((variant, None))
                ctx.count('attack', key=(c['index'], i, nm), tags=['attack'])
                if out['bad']:
                    found += 1
                    ctx.violation(out['bad'][0], {'stream': 'hostile_ids', 'case': R.case_json(variant), 'extra': None, 'derived_from': c['index']})
                    break
            if found: break
        if found: break
    if not found:
        for c in failing:
            ctx.violation('model and implementation disagree on desired files / roots / manifest entries, or the model\'s own C03 predicate fails', c, no_input=True)
    elif failing:
        ctx.notes.append('%d model/implementation disagreements; a concrete failing input was found in their neighbourhood' % len(failing))
