"""C18 — The lockfile is reproducible and its hashes are enforced."""
import os, json, re, random, shutil, hashlib, stat, tempfile
from vlib.common import *
from vlib.common import run as sh
from vlib import coqrun as cq
from vlib.impl import Avh, Sandbox
from vlib import world

HEADER = 'From AP Require Import Corr.Check_C18.\nOpen Scope N_scope.\n'

class SB(Sandbox):
    """Sandbox whose CLI calls survive the moment in which a concurrent check relinks the shared binary"""
    def cli(self, args, **kw):
        import time
        for attempt in range(60):
            try:
                return Sandbox.cli(self, args, **kw)
            except (FileNotFoundError, PermissionError, OSError) as e:
                if attempt == 59 or not isinstance(e, (FileNotFoundError, PermissionError)) and getattr(e, 'errno', None) != 26:
                    raise
                time.sleep(1.0)
T_FILE = '(list str * list N * str)'
T_ENTRY = '(str * str * N)'
T_TREE = 'list str * bool * list %s * list %s * str' % (T_FILE, T_ENTRY)
T_ROOT = '(list str * bool * list %s)' % T_FILE
T_WORLD = 'list (str * %s)' % T_ROOT
T_REMOTE = 'list (str * str * str)'
T_CO = 'list (str * str * str * %s)' % T_ROOT
T_TX = 'list (str * str)'
T_LOCKED = '(str * str * N * str * str * str * str * str * list %s)' % T_ENTRY
T_LOCK = 'list module * %s * %s * %s * %s * option (list %s)' % (T_WORLD, T_REMOTE, T_CO, T_TX, T_LOCKED)
T_FETCH = 'list %s * %s * %s * (bool * N * option str)' % (T_LOCKED, T_CO, T_TX)
T_UPDATE = ('N * list %s * list module * %s * %s * %s * %s * (bool * bool * bool * bool) * '
            '(bool * option (list %s) * option N)') % (T_LOCKED, T_WORLD, T_REMOTE, T_CO, T_TX, T_LOCKED)
T_UP = 'N * list %s * module * %s * (N * str * str * str)' % (T_LOCKED, T_REMOTE)

# ------------------------------------------------------------------ names and terms

def bad(b):
    """the str item os.fsdecode uses for an undecodable byte"""
    return chr(0xDC00 + b)

def is_bad(ch):
    return 0xDC80 <= ord(ch) <= 0xDCFF

def name_codes(name):
    """model encoding of an OS file name: scalar values; 0x110000+b for an ill-formed byte"""
    return [0x110000 + (ord(c) - 0xDC00) if is_bad(c) else ord(c) for c in name]

def cname(name):
    if any(is_bad(c) for c in name):
        return cq.ccodes(name_codes(name))
    return cq.cstr(name)

def ccomps(comps):
    return cq.clist([cname(c) for c in comps])

def cfile(comps, content):
    return cq.cpair(ccomps(comps), cq.cbytes(content), cq.cstr(sha256_hex(content)))

def centry(e):
    return cq.cpair(cq.cstr(e['path']), cq.cstr(e['sha256']), cq.cN(e['bytes']))

def abs_comps(path):
    return [c for c in path.split('/') if c]

def enc_of(entries):
    """the text whose SHA-256 is the module hash, rebuilt from the implementation's own entry list"""
    return ''.join('%s\n%s\n%d\n' % (e['path'], e['sha256'], e['bytes']) for e in entries)

def text_sha(t):
    return hashlib.sha256(t.encode('utf-8', 'surrogatepass')).hexdigest()

def k_classes(names):
    """known classes a set of (visible) relative paths falls in"""
    ks = set()
    for p in names:
        for c in p:
            if '\n' in c: ks.add('K18a')
            if '\\' in c: ks.add('K18b')
            if any(is_bad(ch) for ch in c) or '�' in c: ks.add('K18c')
    return ks

_caps = {}
def viol(ctx, what, case, no_input=False):
    """at most 3 replays per kind of failure (a broken build fails hundreds of cases the same way)"""
    kind = re.sub(r"[0-9a-f]{8,}|\d+|'[^']*'|%r", '#', what)[:60]
    _caps[kind] = _caps.get(kind, 0) + 1
    if _caps[kind] <= 3:
        ctx.violation(what, case, no_input=no_input)
    elif _caps[kind] == 4:
        ctx.log('further failures of this kind are counted, not recorded: ' + what[:100])

def report(ctx, what, case, classes):
    """a property violation observed on the implementation: suppressed only inside a known class"""
    known = [k for k in sorted(classes) if ctx.is_known(k)]
    if known:
        ctx.known_finding(known[0], what)
    else:
        viol(ctx, what, case)

# ------------------------------------------------------------------ tree generator

PLAIN_FILES = ['a.txt', 'SKILL.md', 'AGENTS.md', 'README', 'b', 'c.md', 'x y.md', '日本語.md', 'é.txt',
               'naïve file.md', 'emoji😀.md', '"quoted".md', "it's.md", '-dash', '.hidden', '.gitignore',
               '..git', '.git ', 'git', '.GIT', '.gitx', 'tab\there', 'dollar$var', 'semi;colon', 'star*', 'q?',
               '%41', 'a' * 60, 'Z', '0', '~', 'x.git', '‮evil', 'ctl\x01', '{brace}', 'z.txt', 'prompt.md']
K_FILES = ['back\\slash.md', '\\lead', 'new\nline.md', 'two\n\nnl', 'bad' + bad(0xff) + '.bin', bad(0xfe), bad(0x80) + 'x',
           '�.txt', 'mix\\' + bad(0xff)]
PLAIN_DIRS = ['sub', 'nested', 'deep', 'dir with space', 'ünï', 'x.git', '.agentpack', 'node_modules', '.github',
              'git', '-d', "q'uote"]
K_DIRS = ['d\\ir', 'd\nir']
CONTENTS = [b'', b'\n', b'hello\n', b'zz', b'\x00', b'\x00\xff\xfe binary', b'\r\n', 'héllo ünï\n'.encode(),
            b'---\nname: x\n---\n', b'a', b'A', b'0', b' ', b'\xff']

def gen_content(rng):
    if rng.random() < 0.7:
        return rng.choice(CONTENTS)
    return bytes(rng.randrange(256) for _ in range(rng.randrange(1, 24)))

def valid_add(tree, comps):
    """comps may be added as a file: no existing file is a prefix of it / it is not a directory / not a duplicate"""
    comps = tuple(comps)
    for p in tree:
        if p == comps: return False
        if len(p) < len(comps) and comps[:len(p)] == p: return False     # an existing file would have to be a dir
        if len(comps) < len(p) and p[:len(comps)] == comps: return False  # comps is an existing dir
    return all(c not in ('', '.', '..') and '/' not in c and '\x00' not in c and len(os.fsencode(c)) <= 200 for c in comps)

def gen_tree(rng, kclass=False, gitdirs=True):
    tree = {}
    n = rng.choice([0, 1, 1, 2, 3, 4, 5, 6, 8])
    files = PLAIN_FILES + (K_FILES * 3 if kclass else [])
    dirs = PLAIN_DIRS + (K_DIRS * 2 if kclass else [])
    for _ in range(n):
        depth = rng.choice([0, 0, 0, 1, 1, 2, 3])
        comps = [rng.choice(dirs) for _ in range(depth)] + [rng.choice(files)]
        if valid_add(tree, comps):
            tree[tuple(comps)] = gen_content(rng)
    if gitdirs:
        for _ in range(rng.choice([0, 0, 1, 2, 3])):
            depth = rng.choice([0, 0, 1, 2])
            pre = [rng.choice(PLAIN_DIRS) for _ in range(depth)]
            tail = rng.choice([['.git', 'HEAD'], ['.git', 'objects', 'ab', 'cdef'], ['.git', 'config'], ['.git'],
                               ['.git', 'sub', '.git', 'x']])
            comps = pre + tail
            if valid_add(tree, comps):
                tree[tuple(comps)] = gen_content(rng)
    return tree

def visible(tree):
    return {p: c for p, c in tree.items() if '.git' not in p}

def build_tree(root, tree, order=None, empty_dirs=()):
    os.makedirs(root)
    order = list(order if order is not None else tree.keys())
    for p in order:
        path = os.path.join(root, *p)
        os.makedirs(os.path.dirname(path), exist_ok=True)
        with open(path, 'wb') as f:
            f.write(tree[p])
    for d in empty_dirs:
        os.makedirs(os.path.join(root, *d), exist_ok=True)

def spec_of(tree):
    return [[name_codes(c) for c in p] + [tree[p].hex()] for p in sorted(tree)]

def tree_of_spec(spec):
    t = {}
    for row in spec:
        comps = tuple(''.join(chr(0xDC00 + (x - 0x110000)) if x >= 0x110000 else chr(x) for x in c) for c in row[:-1])
        t[comps] = bytes.fromhex(row[-1])
    return t

class Trees:
    """creates trees under one scratch dir and hashes them with the real hash_tree"""
    def __init__(self, ctx, avh):
        self.ctx = ctx; self.avh = avh; self.n = 0
        self.base = new_scratch('C18t')
        # ext4 lists a directory in name-hash order whatever the creation order, so on the regular
        # scratch area "created in a different order" never changes the walk order.  tmpfs lists in
        # reverse creation order: when /dev/shm is available the order probe also runs there
        # (private mkdtemp directory, removed in close()).
        self.alt = None
        try:
            if os.path.isdir('/dev/shm') and os.access('/dev/shm', os.W_OK):
                self.alt = tempfile.mkdtemp(prefix='verif-C18-', dir='/dev/shm')
        except OSError:
            self.alt = None
    def fresh(self, under=None, alt=False):
        self.n += 1
        d = os.path.join(self.alt if alt and self.alt else self.base, 'r%d' % self.n)
        if under:
            d = os.path.join(d, *under)
            os.makedirs(os.path.dirname(d), exist_ok=True)
        else:
            os.makedirs(os.path.dirname(d), exist_ok=True)
        return d
    def hash(self, root):
        try:
            root.encode('utf-8')
        except UnicodeEncodeError:      # a path that is not valid UTF-8 cannot travel in a JSON string
            return self.avh.call({'op': 'hash_tree_hex', 'dir_hex': os.fsencode(root).hex()})
        return self.avh.call({'op': 'hash_tree', 'dir': root})
    def build_hash(self, tree, rng, under=None, empty_dirs=(), keep=False, alt=False, order=None):
        root = self.fresh(under, alt)
        if order is None:
            order = list(tree.keys()); rng.shuffle(order)
        build_tree(root, tree, order, empty_dirs)
        r = self.hash(root)
        if not keep:
            shutil.rmtree(os.path.join(self.alt if alt and self.alt else self.base, 'r%d' % self.n), ignore_errors=True)
        return root, r
    def close(self):
        rm_scratch(self.base)
        if self.alt:
            shutil.rmtree(self.alt, ignore_errors=True)

def tree_case_term(root, isf, tree, obs):
    files = [cfile(p, c) for p, c in tree.items()]
    enc = enc_of(obs['files'])
    return cq.cpair(ccomps(abs_comps(root)), cq.cbool(isf), cq.clist(files),
                    cq.clist([centry(e) for e in obs['files']]), cq.cstr(enc))

def mutations(rng, tree):
    """all single-file mutations of the visible part (content, rename, add, remove) and
    metadata-only changes.  Yields (kind, changes_visible_content, new_tree, empty_dirs)."""
    vis = sorted(visible(tree))
    out = []
    for p in vis:
        c = tree[p]
        # content: same-size flip, append, truncate/fill
        if c:
            i = rng.randrange(len(c)); flipped = c[:i] + bytes([c[i] ^ (1 << rng.randrange(8))]) + c[i + 1:]
            out.append(('content-flip', True, {**tree, p: flipped}, ()))
            out.append(('content-truncate', True, {**tree, p: b''}, ()))
        else:
            out.append(('content-fill', True, {**tree, p: rng.choice([b'x', b'\n', b'\x00'])}, ()))
        out.append(('content-append', True, {**tree, p: c + rng.choice([b'\n', b'\x00', b'a'])}, ()))
        # remove
        t2 = dict(tree); del t2[p]
        out.append(('remove', True, t2, ()))
        # rename within the directory / move to another directory
        for _ in range(2):
            newp = p[:-1] + (rng.choice(PLAIN_FILES),) if rng.random() < 0.5 else (rng.choice(PLAIN_DIRS),) + p
            t3 = dict(t2)
            if tuple(newp) != p and valid_add(t3, newp) and '.git' not in newp:
                t3[tuple(newp)] = c
                out.append(('rename', True, t3, ()))
                break
        # near-miss renames: letter case, Unicode normalisation form, trailing space
        import unicodedata
        for kind, f in (('rename-case', lambda x: x.swapcase()), ('rename-nfd', lambda x: unicodedata.normalize('NFD', x)),
                        ('rename-space', lambda x: x + ' ')):
            try:
                nn = f(p[-1])
            except Exception:
                continue
            newp = p[:-1] + (nn,)
            t5 = dict(t2)
            if nn != p[-1] and valid_add(t5, newp) and '.git' not in newp:
                t5[newp] = c
                out.append((kind, True, t5, ()))
    # add
    for _ in range(3):
        depth = rng.choice([0, 1, 2])
        comps = tuple([rng.choice(PLAIN_DIRS) for _ in range(depth)] + [rng.choice(PLAIN_FILES)])
        if valid_add(tree, comps) and '.git' not in comps:
            out.append(('add', True, {**tree, comps: rng.choice([b'', b'new\n', gen_content(rng)])}, ()))
    # swap the contents of two files
    if len(vis) >= 2:
        a, b = rng.sample(vis, 2)
        if tree[a] != tree[b]:
            out.append(('swap-contents', True, {**tree, a: tree[b], b: tree[a]}, ()))
    # metadata only: files below .git at several depths, empty directories
    for _ in range(3):
        depth = rng.choice([0, 1, 2])
        pre = [rng.choice(PLAIN_DIRS) for _ in range(depth)]
        comps = tuple(pre + rng.choice([['.git', 'HEAD'], ['.git', 'index'], ['.git', 'refs', 'heads', 'main'], ['.git']]))
        if valid_add(tree, comps):
            out.append(('meta-add-git', False, {**tree, comps: gen_content(rng)}, ()))
    for p in sorted(tree):
        if '.git' in p:
            t4 = dict(tree); del t4[p]
            out.append(('meta-remove-git', False, t4, ()))
            out.append(('meta-change-git', False, {**tree, p: tree[p] + b'!'}, ()))
    ed = (rng.choice(PLAIN_DIRS), 'empty')
    if valid_add(tree, ed + ('f',)):
        out.append(('meta-empty-dir', False, dict(tree), (ed,)))
    return out

def run_tree_stream(ctx, nbase):
    rng = ctx.rng
    cases = []
    seen = {}     # module hash -> canonical visible content
    with Avh() as avh:
        T = Trees(ctx, avh)
        try:
            known_witnesses(ctx, T, rng)
            for i in range(nbase):
                kclass = rng.random() < 0.25
                tree = gen_tree(rng, kclass=kclass)
                flavor = rng.choice(['dir'] * 8 + ['gitroot', 'fileroot'])
                if flavor == 'fileroot':
                    run_file_root(ctx, T, rng, cases)
                    continue
                under = rng.choice([('.git', 'mod'), ('x', '.git'), ('a', '.git', 'b', 'm')]) if flavor == 'gitroot' else None
                root, r = T.build_hash(tree, rng, under=under)
                case = {'stream': 'tree', 'index': i, 'flavor': flavor, 'spec': spec_of(tree), 'under': under}
                if 'ok' not in r:
                    viol(ctx, 'hash_tree failed on a tree of regular files', {**case, 'impl': r}); continue
                obs = r['ok']
                vis = visible(tree)
                cls = k_classes(vis)
                ctx.count('tree', key=json.dumps(spec_of(tree)) + flavor, nontrivial=len(vis) >= 1,
                          tags=['flavor:' + flavor, 'files:%d' % min(len(tree), 8)] + ['class:' + k for k in sorted(cls)] +
                               (['has-git-dir'] if len(vis) != len(tree) else []))
                if text_sha(enc_of(obs['files'])) != obs['sha256']:
                    viol(ctx, 'module sha256 is not the SHA-256 of the path/sha/size manifest of its own file list',
                                  {**case, 'impl': obs}, no_input=True)
                cases.append((tree_case_term(root, False, tree, obs), {**case, 'impl': obs}))
                if i < 2:
                    ctx.sample({'stream': 'tree', 'files': [['/'.join(p), c.hex()] for p, c in sorted(tree.items())][:6],
                                'impl_sha256': obs['sha256'], 'impl_paths': [e['path'] for e in obs['files']]})
                if flavor == 'gitroot':
                    continue      # the absolute-path filter empties the manifest (C18_vcs_root); oracle not applicable
                # ---- oracle: order independence
                order = list(tree.keys()); rng.shuffle(order)
                variants = [T.build_hash(tree, rng, order=order)[1]]
                if T.alt:
                    variants.append(T.build_hash(tree, rng, alt=True, order=order)[1])
                    variants.append(T.build_hash(tree, rng, alt=True, order=order[::-1])[1])
                    ctx.count('tree_order', key=json.dumps(spec_of(tree)), nontrivial=len(vis) >= 2, tags=['walk-order:tmpfs-reversed'])
                for r2 in variants:
                    if r2.get('ok') != obs:
                        report(ctx, 'the same tree created in a different order hashes differently',
                               {**case, 'first': obs, 'second': r2, 'creation_order': [list(p) for p in order]}, cls)
                        break
                # ---- oracle: every single-file mutation flips the hash; metadata-only changes do not
                canon = json.dumps(spec_of(vis))
                prev = seen.setdefault(obs['sha256'], canon)
                if prev != canon:
                    report(ctx, 'two different trees have the same module sha256',
                           {**case, 'other_visible_spec': json.loads(prev), 'sha256': obs['sha256']},
                           cls | k_classes(tree_of_spec(json.loads(prev))))
                muts = mutations(rng, tree)
                picked = rng.sample(range(len(muts)), min(2, len(muts)))
                for j, (kind, changes, t2, eds) in enumerate(muts):
                    root2, rm = T.build_hash(t2, rng, empty_dirs=eds)
                    mcase = {**case, 'mutation': kind, 'mutated_spec': spec_of(t2), 'empty_dirs': [list(e) for e in eds]}
                    if 'ok' not in rm:
                        viol(ctx, 'hash_tree failed on a mutated tree', {**mcase, 'impl': rm}); continue
                    ctx.count('tree_mut', key=(canon, kind, j), nontrivial=True, tags=['mut:' + kind])
                    same = rm['ok']['sha256'] == obs['sha256']
                    cls2 = cls | k_classes(visible(t2))
                    if changes and same:
                        report(ctx, 'a single-file change (%s) left the module sha256 unchanged' % kind,
                               {**mcase, 'sha256': obs['sha256']}, cls2)
                    if not changes and (not same or rm['ok']['files'] != obs['files']):
                        report(ctx, 'a metadata-only change (%s) changed the module hash or file list' % kind,
                               {**mcase, 'before': obs, 'after': rm['ok']}, cls2)
                    if changes:
                        c2 = json.dumps(spec_of(visible(t2)))
                        prev = seen.setdefault(rm['ok']['sha256'], c2)
                        if prev != c2:
                            report(ctx, 'two different trees have the same module sha256',
                                   {**mcase, 'other_visible_spec': json.loads(prev)},
                                   cls2 | k_classes(tree_of_spec(json.loads(prev))))
                    if j in picked:
                        cases.append((tree_case_term(root2, False, t2, rm['ok']), {**mcase, 'impl': rm['ok']}))
                # ---- in place: permissions and timestamps are not content
                root3, r3 = T.build_hash(tree, rng, keep=True)
                for p in list(tree)[:3]:
                    fp = os.path.join(root3, *p)
                    os.chmod(fp, 0o755); os.utime(fp, (1, 1))
                r4 = T.hash(root3)
                ctx.count('tree_mut', key=(canon, 'chmod'), tags=['mut:meta-chmod-utime'])
                if r4 != r3:
                    report(ctx, 'chmod/utime changed the module hash', {**case, 'before': r3, 'after': r4}, cls)
                shutil.rmtree(root3, ignore_errors=True)
        finally:
            T.close()
    for c in ctx.corr('tree', HEADER, 'check_tree', T_TREE, cases, shard_chars=45000):
        viol(ctx, 'model hash_tree (entries or hashed text) and implementation disagree', c, no_input=True)

def run_file_root(ctx, T, rng, cases, fixed=None):
    """a module root that is a single file (prompt/command modules)"""
    name = rng.choice(PLAIN_FILES + ['back\\slash.md', 'new\nline.md', '.git', 'bad' + bad(0xff)])
    content = gen_content(rng)
    if fixed:
        name, content = fixed
    d = T.fresh(); os.makedirs(d)
    fp = os.path.join(d, name)
    with open(fp, 'wb') as f: f.write(content)
    r = T.hash(fp)
    case = {'stream': 'tree', 'flavor': 'fileroot', 'name': name_codes(name), 'content': content.hex(), 'impl': r}
    ctx.count('tree', key=('fileroot', name, content), tags=['flavor:fileroot'])
    if 'ok' not in r:
        viol(ctx, 'hash_tree failed on a single-file module root', case); return
    obs = r['ok']
    if text_sha(enc_of(obs['files'])) != obs['sha256']:
        viol(ctx, 'single-file module sha256 is not the SHA-256 of its one-line manifest', case, no_input=True)
    with open(fp, 'wb') as f: f.write(content + b'x')
    r2 = T.hash(fp)
    if r2.get('ok', {}).get('sha256') == obs['sha256']:
        viol(ctx, 'changing the bytes of a single-file module left its sha256 unchanged', case)
    cases.append((tree_case_term(fp, True, {(name,): content}, obs), case))
    shutil.rmtree(d, ignore_errors=True)

def known_witnesses(ctx, T, rng):
    """replay of the Coq counterexamples on the real hash_tree"""
    # K18a: C18_hash_iff_refuted
    t1 = {('SKILL.md',): b'hello\n', ('z.txt',): b'zz'}
    name = 'SKILL.md\n%s\n%d\nz.txt' % (sha256_hex(b'hello\n'), 6)
    t2 = {(name,): b'zz'}
    _, a = T.build_hash(t1, rng); _, b = T.build_hash(t2, rng)
    ctx.count('witness', key='K18a', tags=['witness:K18a'])
    if 'ok' in a and 'ok' in b and a['ok']['sha256'] == b['ok']['sha256']:
        report(ctx, 'trees {SKILL.md, z.txt} and {"SKILL.md\\n<sha>\\n6\\nz.txt"} (a file name containing newlines) have the same module sha256 %s'
               % a['ok']['sha256'], {'stream': 'witness', 'id': 'K18a', 'a': a, 'b': b}, {'K18a'})
    # K18b: C18_render_refuted (1), C18_order_refuted
    t1 = {('a', 'b'): b'x'}; t2 = {('a\\b',): b'x'}
    _, a = T.build_hash(t1, rng); _, b = T.build_hash(t2, rng)
    ctx.count('witness', key='K18b', tags=['witness:K18b'])
    if 'ok' in a and 'ok' in b and a['ok']['sha256'] == b['ok']['sha256']:
        report(ctx, 'renaming a/b to the single file `a\\b` leaves the module sha256 unchanged (backslash rewritten to /)',
               {'stream': 'witness', 'id': 'K18b', 'a': a, 'b': b}, {'K18b'})
    # K18c: C18_render_refuted (2)
    t1 = {('a' + bad(0xff),): b'x'}; t2 = {('a' + bad(0xfe),): b'x'}
    _, a = T.build_hash(t1, rng); _, b = T.build_hash(t2, rng)
    ctx.count('witness', key='K18c', tags=['witness:K18c'])
    if 'ok' in a and 'ok' in b and a['ok']['sha256'] == b['ok']['sha256']:
        report(ctx, 'files named a\\xff and a\\xfe (ill-formed UTF-8) hash alike: both recorded as a\\ufffd',
               {'stream': 'witness', 'id': 'K18c', 'a': a, 'b': b}, {'K18c'})

# ------------------------------------------------------------------ lock end to end

TS_RE = re.compile(rb'"generated_at": "[^"]*"')

def mask_ts(b):
    return TS_RE.sub(b'"generated_at": "T"', b, count=1)

def read_lock(sb):
    p = os.path.join(sb.repo, 'agentpack.lock.json')
    try:
        raw = open(p, 'rb').read()
    except FileNotFoundError:
        return None, None
    try:
        return raw, json.loads(raw.decode('utf-8'))
    except Exception:
        return raw, None

def obs_locked_terms(doc):
    out = []
    for m in doc['modules']:
        rs = m['resolved_source']
        if rs.get('git'):
            k, a, b, c = 1, rs['git']['url'], rs['git']['commit'], rs['git'].get('subdir', '')
        else:
            k, a, b, c = 0, rs['local_path']['path'], '', ''
        out.append(cq.cpair(cq.cstr(m['id']), cq.cstr(m['type']), cq.cN(k), cq.cstr(a), cq.cstr(b), cq.cstr(c),
                            cq.cstr(m['resolved_version']), cq.cstr(m['sha256']),
                            cq.clist([centry(e) for e in m['file_manifest']])))
    return out

def tx_of(docs):
    """(manifest text, SHA-256) pairs computed here from the implementation's file manifests"""
    tx = {}
    for d in docs:
        for m in (d or {}).get('modules', []):
            t = enc_of(m['file_manifest']); tx[t] = text_sha(t)
    return tx

def ctx_tx(tx):
    return cq.clist([cq.cpair(cq.cstr(k), cq.cstr(v)) for k, v in tx.items()])

def lock_manifest_consistent(doc):
    return [m['id'] for m in doc['modules'] if text_sha(enc_of(m['file_manifest'])) != m['sha256']]

def croot(root, isf, tree):
    return cq.cpair(ccomps(abs_comps(root)), cq.cbool(isf), cq.clist([cfile(p, c) for p, c in tree.items()]))

def cmodule(m):
    src = m['source']
    if 'local_path' in src:
        s = '(SLocal %s)' % cq.cstr(src['local_path']['path'])
    else:
        g = src['git']
        s = '(SGit %s %s %s %s)' % (cq.cstr(g['url']), cq.cstr(g.get('ref', 'main')), cq.cstr(g.get('subdir', '')),
                                     cq.cbool(g.get('shallow', True)))
    return 'mkm %s %s %s %s' % (cq.cstr(m['id']), cq.cstr(m['type']), cq.cbool(m.get('enabled', True)), s)

IDS = ['instructions:base', 'skill:a', 'skill:Z', 'prompt:p', 'command:c', 'a', 'z', 'skill:ünï', 'Skill:a', 'skill:a b',
       'prompt:0', 'm/x', '_', 'skill:zz']
TYPES = {'instructions': 'dir', 'skill': 'dir', 'prompt': 'file', 'command': 'file'}

def gen_local_world(rng, sb):
    """modules with local sources; returns (modules, world: manifest path -> (abs root, is_file, tree) or None)"""
    ids = rng.sample(IDS, rng.randrange(1, 5))
    mods = []; w = {}
    for k, mid in enumerate(ids):
        ty = rng.choice(list(TYPES))
        isf = TYPES[ty] == 'file' and rng.random() < 0.8
        style = rng.choice(['plain'] * 4 + ['backslash', 'backslash', 'dot', 'trailing', 'missing'])
        base = 'modules/%s/m%d' % (ty, k)
        if isf: base += '.md'
        if style == 'backslash':
            # on Linux `mods\m3` is one directory name; the lockfile must still record forward slashes
            disk = 'mods\\m%d' % k + ('.md' if isf else ''); mpath = disk
        elif style == 'dot':
            disk = base; mpath = './' + base
        elif style == 'trailing' and not isf:
            disk = base; mpath = base + '/'
        else:
            disk = base; mpath = base
        tree = gen_tree(rng, kclass=False, gitdirs=True) if not isf else {(os.path.basename(disk),): gen_content(rng)}
        enabled = rng.random() > 0.15
        mods.append({'id': mid, 'type': ty, 'enabled': enabled, 'tags': ['t'], 'source': {'local_path': {'path': mpath}}})
        absroot = os.path.join(sb.repo, disk)
        w[mpath] = None if style == 'missing' else (absroot, isf, tree)
    return mods, w

def write_local_world(sb, w, rng):
    for mpath, v in w.items():
        if v is None: continue
        absroot, isf, tree = v
        if os.path.isdir(absroot): shutil.rmtree(absroot)
        elif os.path.exists(absroot): os.remove(absroot)
        if isf:
            world.write(absroot, list(tree.values())[0])
        else:
            order = list(tree); rng.shuffle(order)
            build_tree(absroot, tree, order)

def manifest_doc(mods):
    return {'version': 1, 'profiles': {'default': {'include_tags': ['t']}}, 'targets': {}, 'modules': mods}

def run_lock_stream(ctx, nscen, seeds=None):
    cases = []
    for i in range(nscen):
        seed = seeds[i] if seeds else ctx.rng.getrandbits(48)
        rng = random.Random(seed)
        sb = SB('c18l')
        try:
            sb.git_init_project()
            mods, w = gen_local_world(rng, sb)
            write_local_world(sb, w, rng)
            world.write_config(sb.repo, manifest_doc(mods))
            case = {'stream': 'lock', 'scenario_seed': seed, 'modules': mods}
            rc, doc, out, err = sb.cli_json(['lock', '--yes'])
            expect_fail = any(w[m['source']['local_path']['path']] is None and m.get('enabled', True) for m in mods)
            raw1, l1 = read_lock(sb)
            ctx.count('lock', key=seed, nontrivial=len(mods) >= 2,
                      tags=['modules:%d' % len(mods), 'fails' if expect_fail else 'ok'] +
                           ['path:' + ('backslash' if '\\' in m['source']['local_path']['path'] else
                                       'dot' if m['source']['local_path']['path'].startswith('./') else 'plain') for m in mods])
            wterm = cq.clist([cq.cpair(cq.cstr(p), croot(*v)) for p, v in w.items() if v is not None])
            if rc != 0 or not doc or not doc.get('ok'):
                if raw1 is not None:
                    viol(ctx, 'lock failed but left a lockfile behind', {**case, 'stdout': out[:1500]})
                cases.append((cq.cpair(cq.clist([cmodule(m) for m in mods]), wterm, '[]', '[]', '[]', 'None'), {**case, 'impl': 'failed'}))
                continue
            if l1 is None:
                viol(ctx, 'lock succeeded but agentpack.lock.json is missing or not JSON', case); continue
            bad_ids = lock_manifest_consistent(l1)
            if bad_ids:
                viol(ctx, 'lockfile sha256 of %s is not the SHA-256 of its file_manifest' % bad_ids, {**case, 'lock': l1}, no_input=True)
            cases.append((cq.cpair(cq.clist([cmodule(m) for m in mods]), wterm, '[]', '[]', ctx_tx(tx_of([l1])),
                                   cq.copt(cq.clist(obs_locked_terms(l1)))), {**case, 'impl_lock': l1}))
            if i < 1:
                ctx.sample({'stream': 'lock', 'modules': [[m['id'], m['source']['local_path']['path']] for m in mods],
                            'lock_ids': [m['id'] for m in l1['modules']],
                            'lock_paths': [m['resolved_source']['local_path']['path'] for m in l1['modules']]})
            # ---- oracle on the implementation
            ids = [m['id'] for m in l1['modules']]
            if ids != sorted(ids, key=lambda s: s.encode('utf-8')):
                viol(ctx, 'lockfile modules are not sorted by id', {**case, 'ids': ids})
            if sorted(ids) != sorted(m['id'] for m in mods if m.get('enabled', True)):
                viol(ctx, 'lockfile does not list exactly the enabled modules', {**case, 'ids': ids})
            if not raw1.endswith(b'\n'):
                viol(ctx, 'lockfile does not end with a newline', case)
            for lm in l1['modules']:
                mp = [m for m in mods if m['id'] == lm['id']][0]['source']['local_path']['path']
                rec = lm['resolved_source']['local_path']['path']
                if '\\' in rec or rec.startswith('/') or sb.root in rec or rec != mp.replace('\\', '/'):
                    viol(ctx, 'local source recorded as %r for manifest path %r (must be repo-relative with /)' % (rec, mp),
                                  {**case, 'recorded': rec})
                if lm['resolved_version'] != 'local':
                    viol(ctx, 'local module resolved_version is not "local"', {**case, 'lock': lm})
            def relock(what, expect_same=True):
                rc2, d2, o2, e2 = sb.cli_json(['lock', '--yes'])
                raw2, l2 = read_lock(sb)
                ctx.count('lock_repeat', key=(seed, what), tags=['relock:' + what])
                if rc2 != 0 or raw2 is None:
                    viol(ctx, 'lock failed after ' + what, {**case, 'stdout': o2[:1500]}); return None
                if expect_same and mask_ts(raw2) != mask_ts(raw1):
                    viol(ctx, 'lockfile differs (beyond generated_at) after ' + what,
                                  {**case, 'first': raw1.decode('utf-8', 'replace'), 'second': raw2.decode('utf-8', 'replace')})
                return raw2, l2
            relock('locking twice')
            mods2 = list(mods); rng.shuffle(mods2)
            world.write_config(sb.repo, manifest_doc(mods2))
            relock('reordering the modules in agentpack.yaml')
            write_local_world(sb, w, rng)       # delete and recreate every module in a new creation order
            relock('recreating the files in a different order')
            # .git noise in one directory module: still identical
            dirs = [(p, v) for p, v in w.items() if v is not None and not v[1]]
            if dirs:
                p, (absroot, isf, tree) = rng.choice(dirs)
                added = [os.path.join(absroot, 'vn_sub', '.git', 'config')]
                if not os.path.isfile(os.path.join(absroot, '.git')):
                    added.append(os.path.join(absroot, '.git', 'verif_noise'))
                for a in added: world.write(a, b'[core]\n')
                relock('adding .git metadata inside a module')
                for a in added: os.remove(a)
                shutil.rmtree(os.path.join(absroot, 'vn_sub'))
            # one content change in one enabled module: exactly that module's entry changes
            en = [(m, w[m['source']['local_path']['path']]) for m in mods if m.get('enabled', True)]
            if en:
                m, (absroot, isf, tree) = rng.choice(en)
                if isf:
                    target = absroot
                else:
                    vis = sorted(visible(tree))
                    target = os.path.join(absroot, *vis[0]) if vis else os.path.join(absroot, 'added.txt')
                old = open(target, 'rb').read() if os.path.exists(target) else None
                world.write(target, (old or b'') + b'+')
                r = relock('changing one file', expect_same=False)
                if r and r[1]:
                    for a, b in zip(l1['modules'], r[1]['modules']):
                        changed = (a['sha256'] != b['sha256'])
                        if (a['id'] == m['id']) != changed:
                            viol(ctx, 'after changing one file of %s the sha256 of module %s %s' %
                                          (m['id'], a['id'], 'did not change' if a['id'] == m['id'] else 'changed'),
                                          {**case, 'before': a, 'after': b})
        finally:
            sb.close()
    for c in ctx.corr('lock', HEADER, 'check_lock', T_LOCK, cases, shard_chars=45000):
        viol(ctx, 'model generate_lockfile and `agentpack lock` disagree', c, no_input=True)

# ------------------------------------------------------------------ git modules, tampering, pinning

class GitWorld:
    def __init__(self, sb, rng):
        self.sb = sb; self.rng = rng
        self.work = os.path.join(sb.root, 'work'); self.bare = os.path.join(sb.root, 'remote.git')
        os.makedirs(self.work)
        self.git(['init', '-q', '-b', 'main', self.work], sb.root)
        self.url = 'file://' + self.bare
        self.commits = {}       # sha -> {relpath tuple: bytes}
    def git(self, args, cwd):
        p = sh(['git'] + args, cwd=cwd, env=self.sb.env())
        if p.returncode != 0:
            raise InfraError('git %r failed: %s' % (args, p.stderr.decode('utf-8', 'replace')[-500:]))
        return p.stdout.decode().strip()
    def commit(self, tree, msg):
        for name in os.listdir(self.work):
            if name != '.git':
                p = os.path.join(self.work, name)
                shutil.rmtree(p) if os.path.isdir(p) else os.remove(p)
        for p, c in tree.items():
            world.write(os.path.join(self.work, *p), c)
        self.git(['add', '-A'], self.work); self.git(['commit', '-q', '--allow-empty', '-m', msg], self.work)
        sha = self.git(['rev-parse', 'HEAD'], self.work)
        self.commits[sha] = dict(tree)
        return sha
    def publish(self):
        if not os.path.exists(self.bare):
            self.git(['clone', '-q', '--bare', self.work, self.bare], self.sb.root)
        else:
            self.git(['push', '-q', '--force', '--tags', self.bare, 'main'], self.work)
    def tag(self, name, annotated):
        self.git(['tag'] + (['-a', '-m', 'rel'] if annotated else []) + [name], self.work)
    def checkout_dir(self, commit):
        canonical = os.path.join(self.sb.aphome, 'cache', 'git', sha256_hex(self.url.encode()), commit)
        if os.path.isdir(canonical):
            return canonical
        # a different store layout: any checkout below cache/git that is at this commit
        base = os.path.join(self.sb.aphome, 'cache', 'git')
        if os.path.isdir(base):
            for a in sorted(os.listdir(base)):
                for b in sorted(os.listdir(os.path.join(base, a))) if os.path.isdir(os.path.join(base, a)) else []:
                    d = os.path.join(base, a, b)
                    if os.path.isdir(os.path.join(d, '.git')):
                        try:
                            if self.git(['rev-parse', 'HEAD'], d) == commit:
                                return d
                        except InfraError:
                            pass
        return canonical
    def module_root(self, commit, subdir):
        d = self.checkout_dir(commit)
        return os.path.join(d, subdir) if subdir.strip() else d
    def tree_at(self, commit, subdir):
        """what ensure_git_checkout + module_root_in_checkout give: the cached directory if present,
        else a fresh clone of the commit"""
        root = self.module_root(commit, subdir)
        if os.path.isdir(self.checkout_dir(commit)):
            if os.path.isfile(root):
                return root, True, {(os.path.basename(root),): open(root, 'rb').read()}
            if not os.path.isdir(root):
                return None
            t = {}
            for dp, dns, fns in os.walk(root):
                rel = tuple(os.path.relpath(dp, root).split(os.sep)) if dp != root else ()
                if '.git' in rel:
                    dns[:] = []; continue
                for fn in fns:
                    t[rel + (fn,)] = open(os.path.join(dp, fn), 'rb').read()
            if os.path.isdir(os.path.join(root, '.git')):     # a sample of the metadata is enough (C18_vcs_only)
                for fn in ('HEAD', 'config'):
                    fp = os.path.join(root, '.git', fn)
                    if os.path.isfile(fp): t[('.git', fn)] = open(fp, 'rb').read()[:60]
            return root, False, t
        if commit not in self.commits:
            return None
        sd = tuple(c for c in subdir.split('/') if c) if subdir.strip() else ()
        full = self.commits[commit]
        if sd and sd in full:
            return root, True, {(sd[-1],): full[sd]}
        t = {p[len(sd):]: c for p, c in full.items() if p[:len(sd)] == sd and len(p) > len(sd)}
        if sd and not t:
            return None
        if not sd:
            t[('.git', 'HEAD')] = b'ref'
        return root, False, t

def co_term(gw, keys):
    rows = []
    for (url, commit, subdir) in keys:
        v = gw.tree_at(commit, subdir) if url == gw.url else None
        if v is not None:
            rows.append(cq.cpair(cq.cstr(url), cq.cstr(commit), cq.cstr(subdir), croot(*v)))
    return cq.clist(rows)

def lock_git_keys(doc):
    return [(m['resolved_source']['git']['url'], m['resolved_source']['git']['commit'], m['resolved_source']['git'].get('subdir', ''))
            for m in (doc or {}).get('modules', []) if m['resolved_source'].get('git')]

MISMATCH_RE = re.compile(r'hash mismatch for (.*?): expected')

def fetch_obs(rc, doc):
    if rc == 0 and doc and doc.get('ok'):
        return True, doc['data'].get('git_modules_fetched', 0), None
    msg = ((doc or {}).get('errors') or [{}])[0].get('message', '')
    m = MISMATCH_RE.search(msg)
    return False, 0, (m.group(1) if m else None)

def run_git_stream(ctx, nscen, seeds=None):
    lock_cases = []; fetch_cases = []; update_cases = []; up_cases = []
    silent_use = 0; silent_checked = 0
    for i in range(nscen):
        seed = seeds[i] if seeds else ctx.rng.getrandbits(48)
        rng = random.Random(seed)
        sb = SB('c18g')
        try:
            sb.git_init_project()
            gw = GitWorld(sb, rng)
            v1 = {('skills', 'foo', 'SKILL.md'): b'---\nname: foo\ndescription: d\n---\nmarker-v1\n',
                  ('skills', 'foo', 'ref', 'notes.md'): gen_content(rng),
                  ('skills', 'bar', 'SKILL.md'): b'---\nname: bar\ndescription: d\n---\nbar-v1\n',
                  ('skills', 'baz', 'SKILL.md'): b'---\nname: baz\ndescription: d\n---\nbaz-v1\n',
                  ('SKILL.md',): b'---\nname: all\ndescription: d\n---\nall-v1\n',
                  ('README.md',): b'readme v1\n'}
            c1 = gw.commit(v1, 'c1')
            reftype = rng.choice(['branch', 'branch', 'tag', 'atag', 'hex'])
            if reftype == 'tag': gw.tag('v1', False)
            if reftype == 'atag': gw.tag('v1', True)
            gw.publish()
            ref = {'branch': 'main', 'tag': 'v1', 'atag': 'v1', 'hex': c1}[reftype]
            nmods = rng.choice([1, 2, 2, 3])     # several modules locked from ONE checkout (same url + commit, different subdirs)
            subdirs = rng.sample(['skills/foo', 'skills/bar', 'skills/baz'], nmods)
            if rng.random() < 0.2: subdirs[0] = ''        # the whole repository as a module (its .git is metadata)
            codex_home = os.path.join(sb.home, 'codex_home'); os.makedirs(codex_home)
            mods = []
            for k, sd in enumerate(subdirs):
                g = {'url': gw.url, 'ref': ref, 'subdir': sd}
                if rng.random() < 0.5: g['shallow'] = rng.random() < 0.5
                mods.append({'id': 'skill:%s' % (sd.split('/')[-1] or 'all'), 'type': 'skill', 'tags': ['t'], 'source': {'git': g}})
            has_local = rng.random() < 0.5
            w = {}
            if has_local:
                ltree = {('AGENTS.md',): b'local instructions\n'}
                mods.append({'id': 'instructions:l', 'type': 'instructions', 'tags': ['t'],
                             'source': {'local_path': {'path': 'modules/instructions/l'}}})
                w['modules/instructions/l'] = (os.path.join(sb.repo, 'modules/instructions/l'), False, ltree)
                write_local_world(sb, w, rng)
            rng.shuffle(mods)
            man = manifest_doc(mods)
            man['targets'] = {'codex': {'mode': 'files', 'scope': 'user',
                                        'options': {'codex_home': codex_home, 'write_agents_global': True,
                                                    'write_agents_repo_root': False, 'write_user_skills': True,
                                                    'write_repo_skills': False, 'write_user_prompts': False}}}
            world.write_config(sb.repo, man)
            case = {'stream': 'git', 'scenario_seed': seed, 'ref': reftype, 'subdirs': subdirs, 'local': has_local}
            remote = [(gw.url, ref, c1)] if reftype != 'hex' else []
            rterm = cq.clist([cq.cpair(cq.cstr(u), cq.cstr(r), cq.cstr(c)) for u, r, c in remote])
            wterm = cq.clist([cq.cpair(cq.cstr(p), croot(*v)) for p, v in w.items()])
            mterm = cq.clist([cmodule(m) for m in mods])
            keys0 = [(gw.url, c1, sd) for sd in subdirs]
            co0 = co_term(gw, keys0)          # cache empty: what a fresh clone of c1 contains
            # ---- lock
            rc, doc, out, err = sb.cli_json(['lock', '--yes'])
            raw1, l1 = read_lock(sb)
            ctx.count('git', key=seed, nontrivial=True, tags=['ref:' + reftype, 'mods:%d' % len(mods)] + (['whole-repo'] if '' in subdirs else []))
            if rc != 0 or l1 is None:
                viol(ctx, 'lock of a git module from a local file:// remote failed', {**case, 'stdout': out[:1500], 'stderr': err[:500]}); continue
            for lm in l1['modules']:
                g = lm['resolved_source'].get('git')
                if g and (g['commit'] != c1 or lm['resolved_version'] != c1):
                    viol(ctx, 'lock recorded commit %s for ref %s that points at %s' % (g['commit'], ref, c1), {**case, 'lock': lm})
            check_lock_content(ctx, gw, l1, case, 'lock')
            tx = tx_of([l1])
            lock_cases.append((cq.cpair(mterm, wterm, rterm, co0, ctx_tx(tx), cq.copt(cq.clist(obs_locked_terms(l1)))),
                               {**case, 'step': 'lock', 'impl_lock': l1}))
            if i < 1:
                ctx.sample({'stream': 'git', 'ref': reftype, 'subdirs': subdirs,
                            'locked': [[m['id'], m['resolved_version'][:12], m['sha256'][:16]] for m in l1['modules']]})
            ngit = len(subdirs)
            def do_fetch(step, expect_ok, why):
                lk = read_lock(sb)[1]
                co = co_term(gw, lock_git_keys(lk))      # BEFORE the command (it may clone)
                t2 = dict(tx); t2.update(tx_of([lk]))
                txterm = ctx_tx(actual_tx(gw, lk, t2))
                rc, doc, out, err = sb.cli_json(['fetch', '--yes'])
                ok, n, mid = fetch_obs(rc, doc)
                ctx.count('fetch', key=(seed, step), tags=['fetch:' + step, 'ok' if ok else 'refused'])
                if expect_ok is not None and ok != expect_ok:
                    viol(ctx, 'fetch %s although %s' % ('succeeded' if ok else 'failed', why), {**case, 'step': step, 'stdout': out[:1500]})
                if ok and n != ngit:
                    viol(ctx, 'fetch verified %d git modules, lockfile has %d' % (n, ngit), {**case, 'step': step})
                fetch_cases.append((cq.cpair(cq.clist(obs_locked_terms(lk)), co, txterm,
                                             cq.cpair(cq.cbool(ok), cq.cN(n), cq.copt(mid, cq.cstr))),
                                    {**case, 'step': step, 'impl': [ok, n, mid]}))
                return ok
            def do_update(step, flags, expect_ok, why):
                lraw, lk = read_lock(sb)
                ex = 0 if lraw is None else (2 if lk is not None else 1)
                keys = lock_git_keys(lk) + keys0
                co = co_term(gw, list(dict.fromkeys(keys)))
                tx_before = actual_tx(gw, lk, {}, extra=keys0)
                lp = os.path.join(sb.repo, 'agentpack.lock.json')
                st0 = os.stat(lp) if os.path.exists(lp) else None
                rc, doc, out, err = sb.cli_json(['update', '--yes'] + [f for f, on in zip(['--lock', '--fetch', '--no-lock', '--no-fetch'], flags) if on])
                ok = rc == 0 and bool(doc) and doc.get('ok')
                st1 = os.stat(lp) if os.path.exists(lp) else None
                rewritten = st1 is not None and (st0 is None or (st0.st_ino, st0.st_mtime_ns) != (st1.st_ino, st1.st_mtime_ns))
                l2 = read_lock(sb)[1] if rewritten else None
                n = doc['data'].get('git_modules_fetched') if ok and any(s['name'] == 'fetch' for s in doc['data'].get('steps', [])) else None
                ctx.count('update', key=(seed, step), tags=['update:' + step, 'ok' if ok else 'refused'])
                if expect_ok is not None and ok != expect_ok:
                    viol(ctx, 'update %s although %s' % ('succeeded' if ok else 'failed', why), {**case, 'step': step, 'flags': flags, 'stdout': out[:1500]})
                t2 = dict(tx); t2.update(tx_of([lk, l2])); t2.update(tx_before)
                update_cases.append((cq.cpair(cq.cN(ex), cq.clist(obs_locked_terms(lk)) if lk else '[]', mterm, wterm, rterm, co,
                                              ctx_tx(t2),
                                              cq.cpair(*[cq.cbool(f) for f in flags]),
                                              cq.cpair(cq.cbool(ok), cq.copt(cq.clist(obs_locked_terms(l2)) if l2 else None), cq.copt(n, cq.cN))),
                                     {**case, 'step': step, 'flags': flags, 'impl': [ok, rewritten, n]}))
                return ok, l2
            # ---- clean fetch / update
            do_fetch('clean', True, 'the cache is a pristine clone of the locked commit')
            do_update('clean', (False, False, False, False), True, 'the cache matches the lockfile')
            # ---- tamper with the cached checkout
            target_sd = rng.choice(subdirs)
            mroot = gw.module_root(c1, target_sd)
            kind = rng.choice(['content', 'content', 'add', 'remove', 'rename', 'git-meta', 'outside', 'lockfile-sha', 'chmod'])
            victim = os.path.join(mroot, 'SKILL.md') if target_sd else os.path.join(mroot, 'README.md')
            content_changed = True
            if kind != 'lockfile-sha' and not os.path.exists(victim):
                viol(ctx, 'after lock+fetch the cached checkout of the locked commit is not where the store keeps checkouts',
                     {**case, 'expected': victim}, no_input=True)
                continue
            if kind == 'content':
                world.write(victim, open(victim, 'rb').read().replace(b'v1', b'TAMPERED') + b'!')
            elif kind == 'add':
                world.write(os.path.join(mroot, 'evil.md'), b'injected\n')
            elif kind == 'remove':
                os.remove(victim)
            elif kind == 'rename':
                os.rename(victim, os.path.join(os.path.dirname(victim), 'renamed.md'))
            elif kind == 'git-meta':
                world.write(os.path.join(gw.checkout_dir(c1), '.git', 'description'), b'tampered metadata\n')
                if target_sd: world.write(os.path.join(mroot, '.git', 'HEAD'), b'nested metadata\n')
                content_changed = False
            elif kind == 'outside':
                if all(subdirs) :
                    world.write(os.path.join(gw.checkout_dir(c1), 'README.md'), b'outside every module root\n')
                    content_changed = False
                else:
                    world.write(os.path.join(gw.checkout_dir(c1), 'README.md'), b'inside the whole-repo module\n')
            elif kind == 'chmod':
                os.chmod(victim, 0o777); os.utime(victim, (5, 5)); content_changed = False
            elif kind == 'lockfile-sha':
                lp = os.path.join(sb.repo, 'agentpack.lock.json')
                d = json.loads(open(lp).read())
                gm = [m for m in d['modules'] if m['resolved_source'].get('git')][0]
                gm['sha256'] = gm['sha256'][:-1] + ('0' if gm['sha256'][-1] != '0' else '1')
                open(lp, 'w').write(json.dumps(d, indent=2) + '\n')
            case['tamper'] = kind
            why = 'the cached checkout was tampered with (%s)' % kind if content_changed else 'only metadata / unrelated files changed (%s)' % kind
            do_fetch('tamper-' + kind, not content_changed, why)
            do_update('tamper-' + kind, (False, False, False, False), not content_changed, why)
            do_update('tamper-nofetch-' + kind, (False, False, False, True), True, '--no-fetch asks for no verification')
            # ---- do plan / deploy use the tampered cache?  (observed and reported, not part of the property)
            if content_changed and kind in ('content', 'add') :
                rc, doc, out, err = sb.cli_json(['plan'])
                if rc == 0 and doc and doc.get('ok'):
                    silent_checked += 1
                    tampered_sha = sha256_hex(open(victim, 'rb').read()) if kind == 'content' else sha256_hex(b'injected\n')
                    if any(ch.get('after_sha256') == tampered_sha for ch in doc['data'].get('changes', [])):
                        silent_use += 1
            # ---- update --lock re-baselines from the cache (C18_update_relock)
            if kind != 'lockfile-sha' and rng.random() < 0.7:
                ok, l2 = do_update('relock-' + kind, (True, False, False, False), True, 'update --lock re-locks from the cache and verifies against that')
            # ---- pinning: wipe the cache, restore the original lock, move the branch
            shutil.rmtree(os.path.join(sb.aphome, 'cache'), ignore_errors=True)
            open(os.path.join(sb.repo, 'agentpack.lock.json'), 'wb').write(raw1)
            v2 = dict(v1)
            v2[('skills', 'foo', 'SKILL.md')] = b'---\nname: foo\ndescription: d\n---\nmarker-v2\n'
            v2[('skills', 'bar', 'SKILL.md')] = b'---\nname: bar\ndescription: d\n---\nbar-v2\n'
            v2[('skills', 'baz', 'SKILL.md')] = b'---\nname: baz\ndescription: d\n---\nbaz-v2\n'
            v2[('SKILL.md',)] = b'---\nname: all\ndescription: d\n---\nall-v2\n'
            v2[('README.md',)] = b'readme v2\n'
            c2 = gw.commit(v2, 'c2')
            if reftype in ('tag', 'atag'):
                gw.git(['tag', '-f'] + (['-a', '-m', 'rel2'] if reftype == 'atag' else []) + ['v1'], gw.work)
            gw.publish()
            now = c1 if reftype == 'hex' else c2
            remote2 = [(gw.url, ref, now)] if reftype != 'hex' else []
            r2term = cq.clist([cq.cpair(cq.cstr(u), cq.cstr(r), cq.cstr(c)) for u, r, c in remote2])
            def observe_upstream(step, lockstate, lk):
                rc, doc, out, err = sb.cli_json(['deploy', '--apply', '--yes'])
                for m in mods:
                    g = m['source'].get('git')
                    if not g:
                        continue
                    name = g['subdir'].split('/')[-1] or 'all'
                    fp = os.path.join(codex_home, 'skills', name, 'SKILL.md')
                    got = open(fp, 'rb').read() if os.path.exists(fp) else None
                    used = None
                    for c, t in gw.commits.items():
                        if got is not None and t.get(tuple(x for x in g['subdir'].split('/') if x) + ('SKILL.md',)) == got:
                            used = c
                    ctx.count('upstream', key=(seed, step, m['id']), tags=['upstream:' + step])
                    if rc != 0 or used is None:
                        viol(ctx, 'deploy of a git module failed or deployed bytes of no known commit (%s)' % step,
                                      {**case, 'step': step, 'stdout': out[:1200], 'deployed': repr(got)[:200]}); continue
                    if lockstate == 2 and used != c1:
                        viol(ctx, 'deploy used commit %s although the lockfile pins %s (remote branch moved)' % (used, c1),
                                      {**case, 'step': step})
                    up_cases.append((cq.cpair(cq.cN(lockstate), cq.clist(obs_locked_terms(lk)) if lk else '[]', cmodule(m), r2term,
                                              cq.cpair(cq.cN(1), cq.cstr(gw.url), cq.cstr(used), cq.cstr(g['subdir']))),
                                     {**case, 'step': step, 'module': m['id'], 'used': used}))
            observe_upstream('pinned', 2, l1)
            st = fetch_after = sb.cli_json(['fetch', '--yes'])
            if st[0] != 0:
                viol(ctx, 'fetch of the pinned commit failed after the branch moved', {**case, 'stdout': st[2][:1200]})
            os.remove(os.path.join(sb.repo, 'agentpack.lock.json'))
            if rng.random() < 0.5:
                observe_upstream('no-lockfile', 0, None)
            else:
                open(os.path.join(sb.repo, 'agentpack.lock.json'), 'w').write('{not json')
                observe_upstream('bad-lockfile', 0, None)
            # ---- lock again after the branch moved: the new lock describes the new commit's content
            keys2 = [(gw.url, now, sd) for sd in subdirs]
            co2 = co_term(gw, keys2)
            rc, doc, out, err = sb.cli_json(['lock', '--yes'])
            raw3, l3 = read_lock(sb)
            ctx.count('git', key=(seed, 'relock-moved'), tags=['lock-after-move'])
            if rc != 0 or l3 is None:
                viol(ctx, 'lock failed after the remote branch moved', {**case, 'stdout': out[:1200]})
            else:
                for lm in l3['modules']:
                    g = lm['resolved_source'].get('git')
                    if g and g['commit'] != now:
                        viol(ctx, 'lock after the branch moved recorded %s, the ref points at %s' % (g['commit'], now), {**case, 'lock': lm})
                check_lock_content(ctx, gw, l3, case, 'lock-after-move')
                lock_cases.append((cq.cpair(mterm, wterm, r2term, co2, ctx_tx(tx_of([l3])), cq.copt(cq.clist(obs_locked_terms(l3)))),
                                   {**case, 'step': 'lock-after-move', 'impl_lock': l3}))
                # ---- the branch advances by a commit that touches no module subdir: the module hashes stay, the
                # resolved commit must still be re-recorded (locking is a function of the sources, not of the old lockfile)
                if reftype == 'branch' and all(subdirs):
                    v2b = dict(gw.commits[now]); v2b[('README.md',)] = b'readme only %d\n' % rng.randrange(999)
                    c2b = gw.commit(v2b, 'c2b'); gw.publish()
                    rc, doc, out, err = sb.cli_json(['lock', '--yes'])
                    raw4, l4 = read_lock(sb)
                    ctx.count('git', key=(seed, 'relock-unrelated-commit'), tags=['lock-after-unrelated-commit'])
                    if rc != 0 or l4 is None:
                        viol(ctx, 'lock failed after an unrelated upstream commit', {**case, 'stdout': out[:800]})
                    else:
                        for lm in l4['modules']:
                            g = lm['resolved_source'].get('git')
                            if g and (g['commit'] != c2b or lm['resolved_version'] != c2b):
                                viol(ctx, 'lock after an upstream commit outside the module recorded %s, the ref points at %s (stale entry kept)' % (g['commit'][:12], c2b[:12]),
                                     {**case, 'step': 'relock-unrelated-commit', 'lock': lm})
                        check_lock_content(ctx, gw, l4, case, 'lock-after-unrelated-commit')
                    now = c2b
                # ---- the locked commit disappears upstream (history rewritten, force-pushed) and the cache is gone:
                # every deploy must fail or render exactly the locked commit - repeated attempts included
                if reftype == 'branch' and l3 is not None:
                    v3 = dict(gw.commits[now])
                    for k_ in list(v3):
                        if k_[-1] == 'SKILL.md': v3[k_] = v3[k_].replace(b'-v2', b'-v3')
                    for pth, cn in v3.items(): world.write(os.path.join(gw.work, *pth), cn)
                    gw.git(['add', '-A'], gw.work); gw.git(['commit', '-q', '--amend', '-m', 'c3 (rewritten)'], gw.work)
                    c3 = gw.git(['rev-parse', 'HEAD'], gw.work); gw.commits[c3] = dict(v3)
                    gw.git(['reflog', 'expire', '--expire=now', '--all'], gw.work)
                    shutil.rmtree(gw.bare); gw.publish()
                    shutil.rmtree(os.path.join(sb.aphome, 'cache', 'git'), ignore_errors=True)
                    for attempt in (1, 2, 3):
                        rc, doc, out, err = sb.cli_json(['deploy', '--apply', '--yes'])
                        ctx.count('upstream', key=(seed, 'rewritten', attempt), tags=['upstream:rewritten', 'attempt:%d' % attempt, 'ok' if rc == 0 else 'refused'])
                        for m in mods:
                            g = m['source'].get('git')
                            if not g: continue
                            name = g['subdir'].split('/')[-1] or 'all'
                            fp = os.path.join(codex_home, 'skills', name, 'SKILL.md')
                            got = open(fp, 'rb').read() if os.path.exists(fp) else None
                            want = gw.commits[now].get(tuple(x for x in g['subdir'].split('/') if x) + ('SKILL.md',))
                            if got is not None and got != want:
                                viol(ctx, 'after the locked commit %s vanished upstream, deploy attempt %d rendered bytes of another commit for %s' % (now[:12], attempt, m['id']),
                                     {**case, 'step': 'rewritten', 'attempt': attempt, 'exit': rc, 'deployed': repr(got)[:200]})
        finally:
            sb.close()
    if silent_checked:
        ctx.notes.append('finding candidate (outside the property text): plan/deploy never re-hash a cached git checkout — in %d of %d '
                         'tampered scenarios `plan --json` reported the tampered bytes as desired content although fetch/update refuse the same cache'
                         % (silent_use, silent_checked))
    for c in ctx.corr('git_lock', HEADER, 'check_lock', T_LOCK, lock_cases, shard_chars=45000):
        viol(ctx, 'model generate_lockfile and `agentpack lock` disagree on a git module', c, no_input=True)
    for c in ctx.corr('fetch', HEADER, 'check_fetch', T_FETCH, fetch_cases, shard_chars=45000):
        viol(ctx, 'model fetch decision and `agentpack fetch` disagree', c, no_input=True)
    for c in ctx.corr('update', HEADER, 'check_update', T_UPDATE, update_cases, shard_chars=45000):
        viol(ctx, 'model update decision and `agentpack update` disagree', c, no_input=True)
    for c in ctx.corr('upstream', HEADER, 'check_upstream', T_UP, up_cases, shard_chars=45000):
        viol(ctx, 'model resolve_upstream and the commit `deploy` rendered disagree', c, no_input=True)

def run_git_refs_stream(ctx, nscen):
    """several modules from ONE remote at DIFFERENT refs (branch head, a tag on an older commit, a hex commit): each
    module is locked at the commit its own ref names, and the lockfile does not depend on the order of the modules"""
    lock_cases = []
    for i in range(nscen):
        seed = ctx.rng.getrandbits(48)
        rng = random.Random(seed)
        sb = SB('c18r')
        try:
            sb.git_init_project()
            gw = GitWorld(sb, rng)
            def tree(v):
                return {('skills', 'foo', 'SKILL.md'): b'---\nname: foo\ndescription: d\n---\nfoo-' + v + b'\n',
                        ('skills', 'foo', 'notes.md'): b'notes ' + v + b'\n',
                        ('skills', 'bar', 'SKILL.md'): b'---\nname: bar\ndescription: d\n---\nbar-' + v + b'\n',
                        ('README.md',): b'readme ' + v + b'\n'}
            c1 = gw.commit(tree(b'v1'), 'c1')
            # tag names made of hex digits only (a date, a build number): names, not commit ids
            t1 = rng.choice(['v1', 'v1', '20240601', 'cafe123', 'deadbeef00'])
            gw.tag(t1, rng.random() < 0.5)
            c2 = gw.commit(tree(b'v2'), 'c2')
            t2 = None
            if rng.random() < 0.5:
                t2 = rng.choice(['v2', '20240702', 'abcdef1'])
                gw.tag(t2, rng.random() < 0.5)
            gw.publish()
            refs = {'main': c2, t1: c1, c1: c1, c2: c2}
            if t2: refs[t2] = c2
            names = sorted(refs)
            chosen = rng.sample(names, rng.choice([2, 2, 3]))
            if len({refs[r] for r in chosen}) < 2:
                chosen = ['main', t1] + chosen[2:]
            codex_home = os.path.join(sb.home, 'codex_home'); os.makedirs(codex_home)
            mods = []
            for k, r in enumerate(chosen):
                sd = rng.choice(['skills/foo', 'skills/bar'])
                mods.append({'id': 'skill:m%d-%s' % (k, sd.split('/')[-1]), 'type': 'skill', 'tags': ['t'],
                             'source': {'git': {'url': gw.url, 'ref': r, 'subdir': sd}}})
            case = {'stream': 'git_refs', 'scenario_seed': seed, 'modules': [(m['id'], m['source']['git']['ref'][:12], m['source']['git']['subdir']) for m in mods]}
            docs = []
            for order in (list(mods), list(reversed(mods))):
                man = manifest_doc(order)
                man['targets'] = {'codex': {'mode': 'files', 'scope': 'user',
                                            'options': {'codex_home': codex_home, 'write_agents_global': False, 'write_agents_repo_root': False,
                                                        'write_user_skills': True, 'write_repo_skills': False, 'write_user_prompts': False}}}
                world.write_config(sb.repo, man)
                try: os.remove(os.path.join(sb.repo, 'agentpack.lock.json'))
                except FileNotFoundError: pass
                rc, doc, out, err = sb.cli_json(['lock', '--yes'])
                raw, lk = read_lock(sb)
                if rc != 0 or lk is None:
                    viol(ctx, 'lock of git modules at different refs of one remote failed', {**case, 'stdout': out[:1500], 'stderr': err[:500]}); docs = None; break
                docs.append((raw, lk, order))
            ctx.count('git_refs', key=seed, nontrivial=True, tags=['refs:%d' % len(chosen)] + ['ref:' + ('hex' if len(r) == 40 else r) for r in chosen])
            if not docs: continue
            for raw, lk, order in docs:
                for lm in lk['modules']:
                    g = lm['resolved_source'].get('git')
                    want = refs[[m for m in mods if m['id'] == lm['id']][0]['source']['git']['ref']]
                    if g and (g['commit'] != want or lm['resolved_version'] != want):
                        viol(ctx, 'lock recorded commit %s for %s whose ref points at %s (another module of the same remote uses a different ref)' % (g['commit'][:12], lm['id'], want[:12]),
                             {**case, 'order': [m['id'] for m in order], 'lock': lm})
                check_lock_content(ctx, gw, lk, case, 'lock')
            if mask_ts(docs[0][0]) != mask_ts(docs[1][0]):
                viol(ctx, 'the lockfile depends on the order of the modules in agentpack.yaml', {**case, 'lock_a': docs[0][1], 'lock_b': docs[1][1]})
            raw, lk, order = docs[0]
            remote = [(gw.url, r, c) for r, c in refs.items() if len(r) != 40]
            rterm = cq.clist([cq.cpair(cq.cstr(u), cq.cstr(r), cq.cstr(c)) for u, r, c in remote])
            keys0 = sorted({(gw.url, refs[m['source']['git']['ref']], m['source']['git']['subdir']) for m in mods})
            lock_cases.append((cq.cpair(cq.clist([cmodule(m) for m in order]), '[]', rterm, co_term(gw, keys0), ctx_tx(tx_of([lk])),
                                        cq.copt(cq.clist(obs_locked_terms(lk)))), {**case, 'step': 'lock', 'impl_lock': lk}))
            if i < 1:
                ctx.sample({'stream': 'git_refs', 'modules': case['modules'], 'locked': [[m['id'], m['resolved_version'][:12]] for m in lk['modules']]})
        finally:
            sb.close()
    for c in ctx.corr('git_refs', HEADER, 'check_lock', T_LOCK, lock_cases, shard_chars=45000):
        viol(ctx, 'model generate_lockfile and `agentpack lock` disagree on git modules at different refs of one remote', c, no_input=True)

def manifest_of(isf, tree):
    """independent reading of the documented manifest: (path, sha256, size) of every file outside .git, sorted by path"""
    if isf:
        (p, cn), = tree.items()
        return [{'path': p[0], 'sha256': sha256_hex(cn), 'bytes': len(cn)}]
    return sorted(({'path': '/'.join(p).replace('\\', '/'), 'sha256': sha256_hex(cn), 'bytes': len(cn)}
                   for p, cn in tree.items() if '.git' not in p), key=lambda e: e['path'].encode('utf-8'))

def pristine_sha(gw, commit, subdir):
    sd = tuple(c for c in subdir.split('/') if c)
    full = gw.commits.get(commit)
    if full is None: return None
    t = {p[len(sd):]: c for p, c in full.items() if p[:len(sd)] == sd and len(p) > len(sd)}
    return text_sha(enc_of(manifest_of(False, t)))

def check_lock_content(ctx, gw, doc, case, step):
    """a locked git module records the hash of the content of the commit it records"""
    for lm in doc['modules']:
        g = lm['resolved_source'].get('git')
        if not g: continue
        exp = pristine_sha(gw, g['commit'], g.get('subdir', ''))
        if exp is not None and exp != lm['sha256']:
            viol(ctx, 'lock recorded commit %s for %s together with a sha256 that is not the hash of that commit\'s files' % (g['commit'][:12], lm['id']),
                 {**case, 'step': step, 'lock': lm, 'expected_sha256': exp})

def actual_tx(gw, lk, tx, extra=()):
    """add (text, sha) for the manifest of what currently is in the cache for each locked git module;
    the text is built here from the files on disk with hashlib, never by agentpack"""
    t = dict(tx)
    keys = lock_git_keys(lk) + list(extra)
    for (u, c, sd) in keys:
        v = gw.tree_at(c, sd) if u == gw.url else None
        if v is None: continue
        root, isf, tree = v
        text = enc_of(manifest_of(isf, tree)); t[text] = text_sha(text)
    return t

# ------------------------------------------------------------------ replay

def replay(ctx):
    case = json.load(open(ctx.replay))
    st = case.get('stream')
    ctx.log('replaying %s case from %s' % (st, ctx.replay))
    if st == 'lock':
        run_lock_stream(ctx, 1, seeds=[case['scenario_seed']])
    elif st == 'git':
        run_git_stream(ctx, 1, seeds=[case['scenario_seed']])
    elif st in ('tree', 'witness'):
        with Avh() as avh:
            T = Trees(ctx, avh)
            try:
                rng = random.Random(0)
                if case.get('flavor') == 'fileroot':
                    name = ''.join(chr(0xDC00 + (x - 0x110000)) if x >= 0x110000 else chr(x) for x in case['name'])
                    cs = []
                    run_file_root(ctx, T, rng, cs, fixed=(name, bytes.fromhex(case['content'])))
                    for c in ctx.corr('tree', HEADER, 'check_tree', T_TREE, cs):
                        viol(ctx, 'model hash_tree and implementation disagree (replayed)', c, no_input=True)
                    return
                if st == 'witness' or 'spec' not in case:
                    known_witnesses(ctx, T, rng); return
                tree = tree_of_spec(case['spec'])
                _, a = T.build_hash(tree, rng, under=tuple(case['under']) if case.get('under') else None)
                print('base  :', json.dumps(a)[:600])
                if 'creation_order' in case:
                    order = [tuple(p) for p in case['creation_order']]
                    vs = [T.build_hash(tree, rng, order=order)[1]]
                    if T.alt:
                        vs += [T.build_hash(tree, rng, alt=True, order=order)[1], T.build_hash(tree, rng, alt=True, order=order[::-1])[1]]
                    for v in vs:
                        print('order :', json.dumps(v)[:300])
                        if v != a:
                            report(ctx, 'replayed: the same tree created in a different order hashes differently', case,
                                   k_classes(visible(tree)))
                            break
                if 'mutated_spec' in case:
                    t2 = tree_of_spec(case['mutated_spec'])
                    _, b = T.build_hash(t2, rng, empty_dirs=[tuple(e) for e in case.get('empty_dirs', [])])
                    print('mutant:', json.dumps(b)[:600])
                    changes = spec_of(visible(tree)) != spec_of(visible(t2))
                    same = a.get('ok', {}).get('sha256') == b.get('ok', {}).get('sha256')
                    if changes == same:
                        report(ctx, 'replayed: %s' % case.get('what', 'hash/content equivalence broken'), case,
                               k_classes(visible(tree)) | k_classes(visible(t2)))
                if 'other_visible_spec' in case:
                    t3 = tree_of_spec(case['other_visible_spec'])
                    _, c = T.build_hash(t3, rng)
                    print('other :', json.dumps(c)[:600])
                    subjects = [(tree, a)]
                    if 'mutated_spec' in case:
                        subjects.append((t2, b))
                    for tr, h in subjects:
                        if h.get('ok', {}).get('sha256') == c.get('ok', {}).get('sha256') and spec_of(visible(tr)) != spec_of(t3):
                            report(ctx, 'replayed: two different trees have the same module sha256', case,
                                   k_classes(visible(tr)) | k_classes(t3))
                            break
            finally:
                T.close()
    else:
        ctx.log('replay file names a broken proof obligation / correspondence stream: rerunning the full check')
        return False
    return True

# ------------------------------------------------------------------ entry point

def run(ctx):
    quick = ctx.tier == 'quick'
    ctx.rule = ('tree: generated directory trees (nested dirs, empty/binary files, names with spaces/unicode/quotes/control '
                'characters, `\\`, newlines, ill-formed UTF-8, `.git` files and directories at several depths, roots below a `.git` '
                'directory, single-file roots) created in shuffled order and hashed by the real hash_tree; for every tree ALL single-file '
                'mutations of the hashed part (content flip/append/truncate, remove, rename/move, add, swap) must change the sha256, and '
                'metadata-only changes (.git content at any depth, empty dirs, chmod, utime, creation order) must not; any two different '
                'trees seen in a run must hash differently. lock: sandboxes with 1-4 local modules (dirs and single files; paths with `\\`, '
                '`./`, trailing `/`, missing) locked twice / after shuffling agentpack.yaml / after recreating files / with .git noise / '
                'after one change. git: local file:// remotes (branch, lightweight and annotated tag, hex ref; subdir or whole repo), '
                'lock, fetch, update, 9 kinds of tampering of the cached checkout or the lockfile, update --lock, branch moved, lockfile '
                'removed or corrupted. non-trivial = at least one hashed file resp. >= 2 modules; distinct = distinct tree spec / scenario seed')
    ctx.trusted = ['Coq 8.16.1 kernel + vm_compute',
                   'hand-written model coq/Model/Lock.v (serde JSON/YAML layout, git, WalkDir and symlinks not modelled)',
                   'SHA-256: Section variables in the model, hashlib lookup tables in the correspondence check',
                   'UTF-8 encoding of a Rust String is injective (the model hashes code points, the implementation their UTF-8 bytes)',
                   'correspondence harness (Python generators, avh hash_tree, CLI driver, git)']
    ctx.assumptions = ['SHA-256 returns 64 lowercase hex digits and is injective on the manifests and file contents at hand (explicit premises of C18_hash_iff_*)',
                       'module ids are unique (validate_manifest) — premise of C18_modules_sorted',
                       'the directory walk yields each regular file once, with its path relative to the root as a component list',
                       'no symlinks inside module trees']
    ctx.proof_phase(extra_targets=['Corr/Check_C18.vo'])
    if ctx.replay:
        if replay(ctx) is not False:
            return
    run_tree_stream(ctx, 130 if quick else 1500)
    run_lock_stream(ctx, 26 if quick else 250)
    run_git_stream(ctx, 16 if quick else 150)
    run_git_refs_stream(ctx, 6 if quick else 80)
