"""C05 — Deploy converges to the desired state and is idempotent."""
import os, json
from vlib.common import *
from vlib import deploysim as ds, world
from vlib.impl import Sandbox

def directed_f2(ctx):
    """regression witness of the repaired defect F2 (fix: commit 4759d45): a deploy that empties the
    desired state must leave an empty re-plan and a no-op repeat."""
    sb = Sandbox('c05f2'); sb.git_init_project()
    try:
        world.codex_instructions_world(sb)
        rc, doc, _, _ = sb.cli_json(['deploy', '--apply', '--yes'])
        man = json.load(open(os.path.join(sb.repo, 'agentpack.yaml')))
        man['modules'][0]['enabled'] = False
        world.write_config(sb.repo, man)
        rc, doc, _, _ = sb.cli_json(['deploy', '--apply', '--yes'])
        n1 = ds.snapshots_count(sb)
        rc, pdoc, _, _ = sb.cli_json(['plan'])
        rc, ddoc, _, _ = sb.cli_json(['deploy', '--apply', '--yes'])
        n2 = ds.snapshots_count(sb)
        case = {'stream': 'corpus_f2', 'plan_after': (pdoc or {}).get('data', {}).get('changes'),
                'second_deploy': (ddoc or {}).get('data'), 'snapshots': [n1, n2]}
        ok = pdoc and pdoc.get('ok') and pdoc['data']['changes'] == [] and ddoc and ddoc.get('ok') and not ddoc['data'].get('applied') and n1 == n2
        ctx.count('corpus_f2', key='f2', tags=['corpus'])
        if not ok:
            ctx.violation('after a deploy that empties the desired state the re-plan is not empty / the repeat deploy is not a no-op (F2 regression)', case)
    finally:
        sb.close()

def failed_then_retry_stream(ctx, n):
    """a deploy that fails part-way (injected I/O error or abort at a random fault point), then the plain retry:
    after the retry SUCCEEDS the world is converged exactly as after an uninterrupted deploy — every desired output holds
    its bytes, every output recorded before the failed run that is no longer desired is gone, and one more deploy is a no-op"""
    import hashlib
    from vlib.impl import Sandbox
    rng = ctx.rng
    for i in range(n):
        sb = Sandbox('c05x'); sb.git_init_project()
        try:
            cw = ds.CfgWorld(sb, rng); ds.setup_all_targets(cw, rng); cw.write()
            sb.cli_json(['deploy', '--apply', '--yes', '--adopt'])
            ids = ds.Ids()
            before = ds.world_tree(sb)
            recorded = set()      # (target, path, recording root): a record is consulted only while ITS root is a root of the run
            for r0 in ds.relR(cw.roots(None), sb.root):
                for t0, q0 in ds.accepted_entries(before, [r0], ids):
                    recorded.add((t0, q0, r0['root']))
            tags = []
            for _ in range(rng.randrange(1, 3)): tags.append('cfg:' + cw.edit_config())
            on = [m for m in cw.modules if m['enabled']]
            if on and rng.random() < 0.7: rng.choice(on)['enabled'] = False; tags.append('cfg:disable')
            if rng.random() < 0.7: cw.add_prompt(); tags.append('cfg:add_prompt')
            cw.write()
            k = rng.randrange(1, 50); kind = rng.choice(['EIO', 'EACCES', 'ENOSPC', 'abort'])
            p = sb.cli(['deploy', '--apply', '--yes', '--adopt', '--json'], extra_env={'AGENTPACK_VERIF_FAULT': '%d:%s' % (k, kind)})
            failed = p.returncode != 0
            rc, doc, out, err = sb.cli_json(['deploy', '--apply', '--yes', '--adopt'])
            rec = {'stream': 'failed_then_retry', 'index': i, 'fault': '%d:%s' % (k, kind), 'first_failed': failed, 'tags': tags,
                   'config': {'opts': cw.opts, 'modules': [(m['id'], m['enabled']) for m in cw.modules]}}
            ctx.count('failed_then_retry', key=(kind, failed, k // 8, tuple(tags)), nontrivial=failed, tags=['fault:' + kind, 'failed' if failed else 'completed'] + tags)
            if not (doc and doc.get('ok')):
                ctx.notes.append('failed_then_retry %d: retry not judged (%s)' % (i, out[:120])); continue
            after = ds.world_tree(sb)
            D = ds.relD(cw.desired(None), sb.root)
            dpaths = {d['path'] for d in D}
            for d in D:
                if after.get(d['path']) != d['bytes']:
                    ctx.violation('after a failed deploy and a successful retry %s does not hold its desired bytes' % d['path'], dict(rec, path=d['path'])); break
            roots_now = ds.relR(cw.roots(None), sb.root)
            for t, q, rr in sorted(recorded):
                if q not in dpaths and q in after and any(r['target'] == t and r['root'] == rr for r in roots_now):
                    ctx.violation('after a failed deploy and a successful retry the output %s — recorded before, no longer desired — is still there' % q, dict(rec, path=q)); break
            rc2, doc2, out2, err2 = sb.cli_json(['deploy', '--apply', '--yes', '--adopt'])
            if doc2 and doc2.get('ok') and doc2['data'].get('applied'):
                ctx.violation('after a failed deploy and a successful retry one more deploy applied again (not converged)', rec)
        finally:
            sb.close()

def run(ctx):
    quick = ctx.tier == 'quick'
    ctx.rule = ('edit_hist: histories of configuration edits (content, enable/disable, option flips that switch roots off, module removal) and user '
                'edits (collisions, drift, manifest deletion/corruption/legacy) with a deploy after each through CLI json/human, MCP, TUI; after each '
                'successful deploy: disk vs reference desired state, exact manifests, plan --json empty, status without missing/modified, repeated deploy = no-op '
                'with the same number of snapshots; non-trivial = non-empty plan or refusal; distinct = distinct (entry, adopt, target, outcome, op set, tags)')
    ctx.trusted = ['Coq 8.16.1 kernel + vm_compute', 'hand-written model coq/Model/Deploy.v', 'harness manifest classifier', 'reference desired state (harness CfgWorld)',
                   'avh harness crate, MCP client', 'tools/gen_tables.py']
    ctx.assumptions = ['SHA-256 injective on the file contents at hand', 'no symlinks in target roots',
                       'wfD / wfM hypotheses of the C05 theorems (one target per path, no manifest file among desired or recorded paths)']
    ctx.proof_phase(extra_targets=['Corr/Check_Deploy.vo'])
    directed_f2(ctx)
    ds.run_cli_stream(ctx, 16 if quick else 250, 5 if quick else 9, props={'C05'}, stream='edit_hist', idempotence=True)
    ds.run_cli_stream(ctx, 8 if quick else 120, 5, props={'C05'}, stream='lost_manifest', idempotence=True, script=ds.script_lost_manifest_idempotence)
    ds.run_cli_stream(ctx, 6 if quick else 100, 8, props={'C05'}, stream='shared_root', idempotence=True, script=ds.script_shared_root_filter, setup=ds.setup_shared_root)
    ds.run_cli_stream(ctx, 8 if quick else 100, 8, props={'C05'}, stream='last_module_removed', idempotence=True, script=ds.script_last_module_removed, setup=ds.setup_all_targets)
    failed_then_retry_stream(ctx, 16 if quick else 250)
    ds.run_cli_stream(ctx, 6 if quick else 100, 6, props={'C05'}, stream='eol_only', idempotence=True, script=ds.script_eol_only, setup=ds.setup_all_targets)
    ds.run_cli_stream(ctx, 6 if quick else 100, 6, props={'C05'}, stream='backported_edit', idempotence=True, script=ds.script_backported_edit, setup=ds.setup_all_targets)
    ds.run_lib_stream(ctx, 60 if quick else 1500, props={'C05'})
