"""C06 — Rollback restores exactly the state of the chosen snapshot."""
from vlib.common import *
from vlib import deploysim as ds

import os, random
from vlib.impl import Sandbox

def _world(sb, claude=True):
    cw = ds.CfgWorld(sb, random.Random(1))
    cw.opts = {'write_agents_global': True, 'write_user_prompts': True, 'write_user_skills': True}
    cw.claude = claude; cw.zed = False; cw.repo_agents = False
    cw.modules = [{'id': 'prompt:p0', 'type': 'prompt', 'dir': 'modules/prompts/p0', 'files': {'p0.md': b'zero\n'}, 'targets': [], 'enabled': True},
                  {'id': 'command:c0', 'type': 'command', 'dir': 'modules/claude-commands/c0', 'files': {'c0.md': ds.command_md('do x')}, 'targets': [], 'enabled': True}]
    return cw

def _deploy(sb, *extra):
    rc, doc, out, err = sb.cli_json(['deploy', '--apply', '--yes'] + list(extra))
    if not (doc and doc.get('ok')):
        raise InfraError('witness deploy failed: ' + out[:300])
    return doc['data'].get('snapshot_id')

def witnesses(ctx):
    """directed witnesses of the recorded findings K6a-c: replayed on the current binary every run"""
    # K6a
    sb = Sandbox('c06w'); sb.git_init_project()
    try:
        cw = _world(sb); cw.write(); _deploy(sb)
        cw.modules[1]['files']['c0.md'] = ds.command_md('do y'); cw.write()
        S = _deploy(sb, '--target', 'claude_code')
        right_after = ds.read_tree(sb.home)
        cw.modules[0]['files']['p0.md'] = b'zero v2\n'; cw.write(); _deploy(sb)
        rc, doc, out, err = sb.cli_json(['rollback', '--to', S, '--yes'])
        after = ds.read_tree(sb.home)
        p = '/codex_home/prompts/p0.md'
        ctx.count('witness', key='K6a', tags=['witness:K6a'])
        if doc and doc.get('ok') and right_after.get(p) is not None and after.get(p) != right_after.get(p):
            if ctx.is_known('K6a'): ctx.known_finding('K6a', ds.KNOWN_TEXT['K6a'])
            else: ctx.violation('rollback to a target-filtered snapshot changed another target\'s file', {'stream': 'witness', 'cls': 'K6a'})
    finally:
        sb.close()
    # K6b
    sb = Sandbox('c06w'); sb.git_init_project()
    try:
        cw = _world(sb, claude=False); cw.write(); S = _deploy(sb)
        ds.world.write(cw.codex_home + '/prompts/p1.md', b'my own prompt\n')
        cw.modules.append({'id': 'prompt:p1', 'type': 'prompt', 'dir': 'modules/prompts/p1', 'files': {'p1.md': b'one\n'}, 'targets': [], 'enabled': True})
        cw.write(); _deploy(sb, '--adopt')
        rc, doc, out, err = sb.cli_json(['rollback', '--to', S, '--yes'])
        after = ds.read_tree(sb.home)
        ctx.count('witness', key='K6b', tags=['witness:K6b'])
        if doc and doc.get('ok') and after.get('/codex_home/prompts/p1.md') != b'my own prompt\n':
            if ctx.is_known('K6b'): ctx.known_finding('K6b', ds.KNOWN_TEXT['K6b'])
            else: ctx.violation('rollback did not restore an adopted user file', {'stream': 'witness', 'cls': 'K6b'})
    finally:
        sb.close()
    # K6c
    sb = Sandbox('c06w'); sb.git_init_project()
    try:
        cw = _world(sb, claude=False); cw.opts['write_user_prompts'] = False
        cw.modules.append({'id': 'instructions:base', 'type': 'instructions', 'dir': 'modules/instructions/base', 'files': {'AGENTS.md': b'# rules\n'}, 'targets': [], 'enabled': True})
        cw.write(); S = _deploy(sb)
        cw.opts['write_user_prompts'] = True; cw.write(); _deploy(sb)
        rc, doc, out, err = sb.cli_json(['rollback', '--to', S, '--yes'])
        after = ds.read_tree(sb.home)
        ctx.count('witness', key='K6c', tags=['witness:K6c'])
        if doc and doc.get('ok') and '/codex_home/prompts/.agentpack.manifest.codex.json' in after:
            if ctx.is_known('K6c'): ctx.known_finding('K6c', ds.KNOWN_TEXT['K6c'])
            else: ctx.violation('rollback left behind a manifest first written after the snapshot', {'stream': 'witness', 'cls': 'K6c'})
    finally:
        sb.close()

def witness_k6d(ctx):
    """K6d: S0 writes AGENTS.md; S1 is deployed with write_agents_global off (the root is no root: the file stays, unmanaged);
    S2 switches the root on again and changes the file; rollback to S1 deletes it although it was there right after S1"""
    sb = Sandbox('c06w'); sb.git_init_project()
    try:
        cw = _world(sb, claude=False)
        cw.modules.append({'id': 'instructions:base', 'type': 'instructions', 'dir': 'modules/instructions/base', 'files': {'AGENTS.md': b'# rules\n'}, 'targets': [], 'enabled': True})
        cw.write(); _deploy(sb)
        cw.opts['write_agents_global'] = False; cw.modules[0]['files']['p0.md'] = b'zero v2\n'; cw.write(); S = _deploy(sb)
        right_after = ds.read_tree(sb.home)
        cw.opts['write_agents_global'] = True; cw.modules[-1]['files']['AGENTS.md'] = b'# rules v2\n'; cw.write(); _deploy(sb)
        rc, doc, out, err = sb.cli_json(['rollback', '--to', S, '--yes'])
        after = ds.read_tree(sb.home)
        p = '/codex_home/AGENTS.md'
        ctx.count('witness', key='K6d', tags=['witness:K6d'])
        if doc and doc.get('ok') and right_after.get(p) is not None and after.get(p) != right_after.get(p):
            if ctx.is_known('K6d'): ctx.known_finding('K6d', ds.KNOWN_TEXT['K6d'])
            else: ctx.violation('rollback to S changed a file that lay on disk unmanaged right after S', {'stream': 'witness', 'cls': 'K6d'})
    finally:
        sb.close()

def run(ctx):
    quick = ctx.tier == 'quick'
    ctx.rule = ('rollback_hist: histories over {deploy(config edit, user edit, entry point, --target, --adopt), bootstrap --scope user, rollback --to (any earlier '
                'snapshot id, rollback records, unknown ids), evolve restore}; after every snapshot the harness records the disk; after each rollback it compares '
                'every path touched by later deployments with the recorded disk; non-trivial = non-empty plan / successful rollback; distinct = distinct step signature')
    ctx.trusted = ['Coq 8.16.1 kernel + vm_compute', 'hand-written model coq/Model/Deploy.v (rollback: state-tree branch)', 'harness manifest classifier',
                   'reference desired state (harness CfgWorld); bootstrap desired state read from the snapshot record', 'avh harness crate, MCP client', 'tools/gen_tables.py']
    ctx.assumptions = ['SHA-256 injective on the file contents at hand', 'no symlinks in target roots', 'snapshot ids are ordered like their creation (no mtime tampering)',
                       'legacy snapshots without a state tree (backup-walk branch) are not generated']
    ctx.proof_phase(extra_targets=['Corr/Check_Deploy.vo'])
    witnesses(ctx)
    witness_k6d(ctx)
    # rollback-heavy histories of plain deploys (no filter, no adopt): several deploys, then rollbacks back, forward (redo) and sideways
    ds.run_hist_stream(ctx, 10 if quick else 150, 0, props={'C06'}, weights={'deploy': 1}, stream='redo_hist', simple=True,
                       kinds_seq=lambda rng: ['deploy'] * rng.randrange(2, 5) + ['rollback'] * rng.randrange(3, 6),
                       setup=lambda cw, rng: ds.setup_two_roots(cw, rng) if rng.random() < 0.6 else None)
    # deploys that each change one root only, then rollbacks to the middle one: every root's manifest, changed or not, must come back
    ds.run_hist_stream(ctx, 5 if quick else 60, 8, props={'C06'}, weights={'deploy': 1}, stream='two_root_hist',
                       plan_script=ds.hist_two_roots, setup=ds.setup_two_roots)
    ds.run_hist_stream(ctx, 5 if quick else 60, 6, props={'C06'}, weights={'deploy': 1}, stream='drift_then_deploy',
                       plan_script=ds.hist_drift_then_deploy, setup=ds.setup_two_roots)
    ds.run_hist_stream(ctx, 4 if quick else 40, 6, props={'C06'}, weights={'deploy': 1}, stream='shrink_then_rollbacks',
                       plan_script=ds.hist_shrink_then_rollbacks, setup=ds.setup_two_roots)
    ds.run_hist_stream(ctx, 5 if quick else 60, 8, props={'C06'}, weights={'deploy': 1}, stream='repeat_rollback',
                       plan_script=ds.hist_repeat_rollback, setup=ds.setup_two_roots)
    ds.run_hist_stream(ctx, 16 if quick else 250, 6 if quick else 9, props={'C06'},
                       weights={'deploy': 5, 'rollback': 4, 'bootstrap': 1, 'restore': 1}, stream='rollback_hist')
