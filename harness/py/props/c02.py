"""C02 — Deletes touch only files agentpack itself recorded as managed."""
from vlib.common import *
from vlib import deploysim as ds

def run(ctx):
    quick = ctx.tier == 'quick'
    ctx.rule = ('lib_apply: generated (roots layout x desired x disk state x per-root manifest state incl. hostile entries) through '
                'load_managed_paths_from_manifests + plan + apply_plan (avh); non-trivial = plan non-empty; distinct = distinct (tag set, op set)')
    ctx.trusted = ['Coq 8.16.1 kernel + vm_compute', 'hand-written model coq/Model/Deploy.v', 'harness manifest classifier (serde rules re-implemented in Python)',
                   'avh harness crate', 'tools/gen_tables.py (manifest file names, schema version)']
    ctx.assumptions = ['SHA-256 injective on the file contents at hand (content ids)', 'target roots contain no symlinks; directories at file paths are outside the model']
    ctx.proof_phase(extra_targets=['Corr/Check_Deploy.vo'])
    ds.run_lib_stream(ctx, 250 if quick else 4000, props={'C02'})
