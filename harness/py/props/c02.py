"""C02 — Deletes touch only files agentpack itself recorded as managed."""
from vlib.common import *
from vlib import deploysim as ds

def run(ctx):
    quick = ctx.tier == 'quick'
    ctx.rule = ('cli_deploy: configuration/user-edit histories through every deploy entry point, every disappeared file judged against the records '
                '(accepted manifest entries of the run\'s roots, else the latest snapshot restricted to those roots); moved_roots: the same agentpack home used '
                'from another project checkout / with another codex_home / with a root switched off between deploys; '
                'lib_apply: generated (roots layout x desired x disk state x per-root manifest state incl. hostile entries) through '
                'load_managed_paths_from_manifests + plan + apply_plan (avh); non-trivial = plan non-empty; distinct = distinct (tag set, op set)')
    ctx.trusted = ['Coq 8.16.1 kernel + vm_compute', 'hand-written model coq/Model/Deploy.v', 'harness manifest classifier (serde rules re-implemented in Python)',
                   'avh harness crate', 'tools/gen_tables.py (manifest file names, schema version)']
    ctx.assumptions = ['SHA-256 injective on the file contents at hand (content ids)', 'target roots contain no symlinks; directories at file paths are outside the model']
    ctx.proof_phase(extra_targets=['Corr/Check_Deploy.vo'])
    ds.run_cli_stream(ctx, 8 if quick else 150, 4 if quick else 8, props={'C02'})
    ds.run_cli_stream(ctx, 10 if quick else 150, 4, props={'C02'}, stream='moved_roots', script=ds.script_moved_roots, setup=ds.setup_moved_roots)
    ds.run_cli_stream(ctx, 8 if quick else 120, 4, props={'C02'}, stream='shared_root', script=ds.script_shared_root_filter, setup=ds.setup_shared_root)
    ds.run_hist_stream(ctx, 5 if quick else 60, 6, props={'C02'}, weights={'deploy': 1}, stream='readd_after_removal', plan_script=ds.hist_readd_after_removal, setup=ds.setup_two_roots)
    ds.run_cli_stream(ctx, 5 if quick else 80, 3, props={'C02'}, stream='hidden_user_files', script=ds.script_remove_with_hidden_user_files, setup=ds.setup_all_targets)
    ds.run_cli_stream(ctx, 5 if quick else 80, 3, props={'C02'}, stream='foreign_manifest', script=ds.script_foreign_manifest, setup=ds.setup_all_targets)
    ds.run_hist_stream(ctx, 5 if quick else 60, 4, props={'C02'}, weights={'deploy': 1}, stream='fallback_after_rollback', plan_script=ds.hist_fallback_after_rollback, setup=ds.setup_two_roots)
    ds.run_lib_stream(ctx, 250 if quick else 4000, props={'C02'})
