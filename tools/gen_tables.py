#!/usr/bin/env python3
"""Translator (data only): re-read constants / tables from /repo's Rust source and docs and write
coq/Gen/Tables.v.  Anchored regular expressions; fails loudly (exit 1, message naming the anchor)
when an anchor disappears, so that the calling check reports the table as an obligation that no
longer checks.  Usage: gen_tables.py <repo> <out.v>"""
import re, sys, os, json

def die(msg):
    print('gen_tables: ANCHOR MISSING: ' + msg)
    sys.exit(1)

def read(repo, rel):
    p = os.path.join(repo, rel)
    try:
        return open(p, encoding='utf-8').read()
    except OSError:
        die('file ' + rel)

def strip_verif(src):
    """drop cfg(agentpack_verif) items so the tables describe the production code"""
    return src

def codes(s):
    return '[' + ';'.join(str(ord(c)) for c in s) + ']'

def coq_str_def(name, s):
    return 'Definition %s : str := %s. (* %s *)' % (name, codes(s), json.dumps(s).replace('*)', '* )'))

def coq_strlist_def(name, xs):
    body = ';\n   '.join('%s (* %s *)' % (codes(x), json.dumps(x).replace('*)', '* )')) for x in xs)
    return 'Definition %s : list str :=\n  [%s].' % (name, body)

def rust_str_list(block):
    return [bytes(m, 'utf-8').decode('unicode_escape') for m in re.findall(r'"((?:[^"\\]|\\.)*)"', block)]

def const_block(src, name, rel):
    m = re.search(r'const\s+%s\s*:\s*&\[&str\]\s*=\s*&\[(.*?)\];' % name, src, re.S)
    if not m:
        die('%s in %s' % (name, rel))
    return rust_str_list(m.group(1))

def const_str(src, name, rel):
    m = re.search(r'const\s+%s\s*:\s*&str\s*=\s*"((?:[^"\\]|\\.)*)"\s*;' % name, src)
    if not m:
        die('%s in %s' % (name, rel))
    return bytes(m.group(1), 'utf-8').decode('unicode_escape')

def const_int(src, name, rel, ty=r'\w+'):
    m = re.search(r'const\s+%s\s*:\s*%s\s*=\s*([0-9_]+)\s*;' % (name, ty), src)
    if not m:
        die('%s in %s' % (name, rel))
    return int(m.group(1).replace('_', ''))

# ---- (C12/C03) per-target boolean options: name, default and the scope flag that guards each one, from
# the `let x = allow_<scope> && get_bool(opts, "<name>", <default>);` lines of src/targets/<t>.rs; the
# same table as documented in docs/reference/targets.md ("- `<name>`: default <b> (requires <s> scope)").
RENDER_OPTIONS = {
    'codex': ['write_repo_skills', 'write_user_skills', 'write_user_prompts', 'write_agents_global', 'write_agents_repo_root'],
    'claude_code': ['write_repo_commands', 'write_user_commands', 'write_repo_skills', 'write_user_skills'],
    'cursor': ['write_rules'],
    'vscode': ['write_instructions', 'write_prompts'],
    'jetbrains': ['write_guidelines'],
    'zed': ['write_rules'],
}
DOC_SECTIONS = {'codex': r'## 1\) codex', 'claude_code': r'## 2\) claude_code', 'cursor': r'## 3\) cursor',
                'vscode': r'## 4\) vscode', 'jetbrains': r'## 5\) jetbrains', 'zed': r'## 8\) zed'}

def render_tables(repo, L):
    doc = read(repo, 'docs/reference/targets.md')
    src_rows = []; doc_rows = []
    for tgt, names in RENDER_OPTIONS.items():
        rel = 'src/targets/%s.rs' % tgt
        src = read(repo, rel)
        found = re.findall(r'let\s+\w+\s*=\s*allow_(user|project)\s*&&\s*get_bool\(\s*opts\s*,\s*"(\w+)"\s*,\s*(true|false)\s*\)\s*;', src)
        allgb = re.findall(r'get_bool\(\s*opts\s*,\s*"(\w+)"', src)
        if sorted(n for _, n, _ in found) != sorted(names) or sorted(allgb) != sorted(names):
            die('boolean options of target %s in %s: expected %s, found guarded %s / all %s' %
                (tgt, rel, sorted(names), sorted(n for _, n, _ in found), sorted(allgb)))
        for sc, n, d in found:
            src_rows.append((tgt, n, d == 'true', sc == 'project'))
            L.append('Definition opt_%s_%s : bool * bool := (%s, %s). (* (default, requires project scope [else user]) *)'
                     % (tgt, n, d, 'true' if sc == 'project' else 'false'))
        m = re.search(DOC_SECTIONS[tgt] + r'\n(.*?)(?=\n## |\Z)', doc, re.S)
        if not m:
            die('section of target %s in docs/reference/targets.md' % tgt)
        drows = re.findall(r'^- `(\w+)`: default (true|false) \(requires (user|project) scope\)', m.group(1), re.M)
        if sorted(n for n, _, _ in drows) != sorted(names):
            die('documented options of target %s in docs/reference/targets.md: %s' % (tgt, drows))
        for n, d, sc in drows:
            doc_rows.append((tgt, n, d == 'true', sc == 'project'))
            L.append('Definition doc_opt_%s_%s : bool * bool := (%s, %s).' % (tgt, n, d, 'true' if sc == 'project' else 'false'))
    cb = lambda b: 'true' if b else 'false'
    row = lambda r: '(%s, %s, %s, %s) (* %s.%s *)' % (codes(r[0]), codes(r[1]), cb(r[2]), cb(r[3]), r[0], r[1])
    L.append('Definition render_option_table : list (str * str * bool * bool) :=\n  [%s].' % ';\n   '.join(row(r) for r in sorted(src_rows)))
    L.append('Definition doc_render_option_table : list (str * str * bool * bool) :=\n  [%s].' % ';\n   '.join(row(r) for r in sorted(doc_rows)))
    # codex_home default literal and the option/env names
    util = read(repo, 'src/targets/util.rs')
    m = re.search(r'opts\.get\("(codex_home)"\).*?std::env::var\("(CODEX_HOME)"\).*?expand_tilde\("(~/[^"]*)"\)', util, re.S)
    if not m:
        die('codex_home_from_options (option name, env name, default) in src/targets/util.rs')
    L.append(coq_str_def('codex_home_option_name', m.group(1)))
    L.append(coq_str_def('codex_home_default', m.group(3)))
    m = re.search(r'match s\.trim\(\)\.to_ascii_lowercase\(\)\.as_str\(\) \{\s*((?:"[^"]*"\s*\|?\s*)+)=> true,\s*((?:"[^"]*"\s*\|?\s*)+)=> false,', util)
    if not m:
        die('get_bool string tables in src/targets/util.rs')
    L.append(coq_strlist_def('get_bool_true_strings', rust_str_list(m.group(1))))
    L.append(coq_strlist_def('get_bool_false_strings', rust_str_list(m.group(2))))
    # cursor rule header
    cur = read(repo, 'src/targets/cursor.rs')
    m = re.search(r'format!\("(---\\ndescription: )\{description_json\}((?:[^"\\]|\\.)*)"\)', cur)
    m2 = re.search(r'let description = format!\("((?:[^"\\{]|\\.)*)\{\}"\s*,\s*m\.id\)', cur)
    m3 = re.search(r'format!\("\{\}(\.mdc)"', cur)
    if not m or not m2 or not m3:
        die('cursor rule header / description / extension format strings in src/targets/cursor.rs')
    un = lambda x: bytes(x, 'utf-8').decode('unicode_escape')
    L.append(coq_str_def('cursor_header_before', un(m.group(1))))
    L.append(coq_str_def('cursor_header_after', un(m.group(2))))
    L.append(coq_str_def('cursor_description_prefix', un(m2.group(1))))
    L.append(coq_str_def('cursor_rule_ext', m3.group(1)))
    # separator between the parts of an aggregated instructions file (both the marked and the plain branch)
    for tgt in ('codex', 'vscode', 'jetbrains', 'zed'):
        rel = 'src/targets/%s.rs' % tgt
        joins = re.findall(r'\.collect::<Vec<_>>\(\)\s*\.join\("((?:[^"\\]|\\.)*)"\)', read(repo, rel))
        if len(joins) != 2 or joins[0] != joins[1]:
            die('the two instruction-part join separators in ' + rel)
        L.append(coq_str_def('agg_sep_' + tgt, un(joins[0])))
    # directories that copy_tree leaves out of a materialised module
    fs = read(repo, 'src/fs.rs')
    m = re.search(r'pub fn copy_tree\(.*?\.any\(\|c\| c\.as_os_str\(\) == "([^"]+)" \|\| c\.as_os_str\(\) == "([^"]+)"\)', fs, re.S)
    if not m:
        die('copy_tree ignored component names in src/fs.rs')
    L.append(coq_strlist_def('copy_tree_ignored', [m.group(1), m.group(2)]))

def main():
    repo, out = sys.argv[1], sys.argv[2]
    L = []
    L.append('(* Gen/Tables.v — GENERATED by tools/gen_tables.py from /repo source on every run. Do not edit. *)')
    L.append('From AP Require Import Base.Str.')
    L.append('Open Scope N_scope.')
    L.append('')

    # events
    ev = read(repo, 'src/events.rs')
    L.append('Definition events_schema_version : N := %d.' % const_int(ev, 'EVENTS_SCHEMA_VERSION', 'src/events.rs'))

    # mutating ids
    util = read(repo, 'src/cli/util.rs')
    mut = const_block(util, 'MUTATING_COMMAND_IDS', 'src/cli/util.rs')
    L.append(coq_strlist_def('mutating_ids', mut))

    # guard call sites: every literal passed to require_yes_for_json_mutation / confirm_required / JsonYes
    guard_ids = set()
    guard_sites = []
    for dp, dns, fns in os.walk(os.path.join(repo, 'src')):
        for fn in fns:
            if not fn.endswith('.rs'):
                continue
            rel = os.path.relpath(os.path.join(dp, fn), repo)
            src = open(os.path.join(dp, fn), encoding='utf-8').read()
            for m in re.finditer(r'require_yes_for_json_mutation\(\s*[\w\.&]+\s*,\s*"([^"]+)"\s*,?\s*\)', src):
                guard_ids.add(m.group(1)); guard_sites.append((m.group(1), rel))
            for m in re.finditer(r'JsonYes\s*\{\s*command_id:\s*"([^"]+)"', src):
                guard_ids.add(m.group(1)); guard_sites.append((m.group(1), rel))
            if not rel.endswith('user_error.rs'):
                for m in re.finditer(r'confirm_required\(\s*"([^"]+)"\s*\)', src):
                    guard_ids.add(m.group(1)); guard_sites.append((m.group(1), rel))
    if not guard_ids:
        die('no guard call sites found')
    L.append(coq_strlist_def('guard_site_ids', sorted(guard_ids)))

    # command_path arms -> catalogue of command ids
    args = read(repo, 'src/cli/args.rs')
    m = re.search(r'fn command_path\(&self\)\s*->\s*Vec<String>\s*\{(.*?)\n    \}\n', args, re.S)
    if not m:
        die('Cli::command_path in src/cli/args.rs')
    body = m.group(1)
    cat = set()
    for vm in re.finditer(r'vec!\[((?:\s*"[^"]+"\.to_string\(\)\s*,?)+)\s*\]', body):
        toks = re.findall(r'"([^"]+)"', vm.group(1))
        cat.add(' '.join(toks))
    for base, flag in re.findall(r'let mut out = vec!\["(\w+)"\.to_string\(\)\];.*?out\.push\("(--\w+)"\.to_string\(\)\)', body, re.S):
        cat.add(base); cat.add(base + ' ' + flag)
    if len(cat) < 20:
        die('command_path arms (found %d)' % len(cat))
    cat.discard('tui')
    L.append(coq_strlist_def('catalogue_ids', sorted(cat)))

    # token
    conf = read(repo, 'src/mcp/confirm.rs')
    m = re.search(r'const\s+CONFIRM_TOKEN_TTL\s*:\s*Duration\s*=\s*Duration::from_secs\(([^)]*)\)', conf)
    if not m:
        die('CONFIRM_TOKEN_TTL in src/mcp/confirm.rs')
    expr = m.group(1).replace('_', '')
    if not re.fullmatch(r'[0-9\s\*]+', expr):
        die('CONFIRM_TOKEN_TTL expression ' + expr)
    ttl = eval(expr)
    L.append('Definition confirm_token_ttl_ms : N := %d.' % (ttl * 1000))
    L.append('Definition confirm_token_len_bytes : N := %d.' % const_int(conf, 'CONFIRM_TOKEN_LEN_BYTES', 'src/mcp/confirm.rs'))

    # ids
    ids = read(repo, 'src/ids.rs')
    L.append('Definition fs_key_prefix_max : N := %d.' % const_int(ids, 'MODULE_FS_KEY_PREFIX_MAX_LEN', 'src/ids.rs'))

    # (C13) machine id: the non-ASCII characters whose Unicode lowercase form contains an ASCII character
    # (computed from this interpreter's Unicode database; str::to_lowercase uses the same SpecialCasing data)
    low = []
    for c in range(128, 0x110000):
        if 0xD800 <= c <= 0xDFFF: continue
        l = chr(c).lower()
        if any(ord(x) < 128 for x in l):
            low.append('(%d, [%s])' % (c, '; '.join(str(ord(x)) for x in l)))
    L.append('Definition lower_into_ascii : list (N * list N) := [%s].' % '; '.join(low))

    # (C12/C03) render option tables
    render_tables(repo, L)

    # markers
    mk = read(repo, 'src/markers.rs')
    L.append(coq_str_def('marker_start_prefix', const_str(mk, 'MODULE_SECTION_START_PREFIX', 'src/markers.rs')))
    L.append(coq_str_def('marker_end', const_str(mk, 'MODULE_SECTION_END_MARKER', 'src/markers.rs')))
    # (C17) separator each target puts between the marked module sections of an aggregated
    # instructions file: (target, separator) per target that calls format_module_section
    seps = []
    for tgt in ('codex', 'vscode', 'jetbrains', 'zed'):
        rel = 'src/targets/%s.rs' % tgt
        tsrc = read(repo, rel)
        found = re.findall(r'format_module_section\(&module_id,\s*&text\)\s*\)\s*\.collect::<Vec<_>>\(\)\s*'
                           r'\.join\("((?:[^"\\]|\\.)*)"\)', tsrc)
        if len(found) != 1:
            die('aggregated-instructions join separator (format_module_section … .join("…")) in ' + rel)
        seps.append((tgt, bytes(found[0], 'utf-8').decode('unicode_escape')))
    L.append('Definition instructions_join_seps : list (str * str) :=\n  [%s].' %
             ';\n   '.join('(%s, %s) (* %s %s *)' % (codes(t), codes(sp), t, json.dumps(sp).replace('*)', '* )')) for t, sp in seps))

    # target manifest
    tm = read(repo, 'src/target_manifest.rs')
    L.append(coq_str_def('legacy_manifest_filename', const_str(tm, 'LEGACY_TARGET_MANIFEST_FILENAME', 'src/target_manifest.rs')))
    L.append('Definition target_manifest_schema_version : N := %d.' % const_int(tm, 'TARGET_MANIFEST_SCHEMA_VERSION', 'src/target_manifest.rs'))
    m = re.search(r'format!\("(\.agentpack\.manifest\.)\{safe\}(\.json)"\)', tm)
    if not m:
        die('manifest_filename format in src/target_manifest.rs')
    L.append(coq_str_def('manifest_filename_prefix', m.group(1)))
    L.append(coq_str_def('manifest_filename_suffix', m.group(2)))

    # policy
    pol = read(repo, 'src/policy.rs')
    L.append(coq_strlist_def('policy_ignored_dir_names', const_block(pol, 'IGNORED_DIR_NAMES', 'src/policy.rs')))
    m = re.search(r'fn is_shell_separator\(token: &str\) -> bool \{\s*matches!\(token,\s*(.*?)\)\s*\}', pol, re.S)
    if not m:
        die('is_shell_separator in src/policy.rs')
    L.append(coq_strlist_def('shell_separators', rust_str_list(m.group(1))))
    # (C20) the global-flag skipping loop lives in skip_global_flags (after the F9a fix) or, on older
    # trees, inside agentpack_command_id itself
    m = re.search(r'fn skip_global_flags\(argv: &\[String\], mut idx: usize\) -> usize \{(.*?)\n\}\n', pol, re.S) or \
        re.search(r'fn agentpack_command_id\(argv: &\[String\]\) -> Option<String> \{(.*?)\n\}\n', pol, re.S)
    if not m:
        die('skip_global_flags / agentpack_command_id in src/policy.rs')
    cid = m.group(1)
    m2 = re.search(r'if matches!\(t,\s*((?:"--[\w-]+"\s*\|?\s*)+)\)\s*\{\s*idx \+= 2;', cid)
    m3 = re.search(r'if matches!\(t,\s*((?:"--[\w-]+"\s*\|?\s*)+)\)\s*\{\s*idx \+= 1;', cid)
    if not m2 or not m3:
        die('global flag tables in skip_global_flags / agentpack_command_id')
    L.append(coq_strlist_def('policy_flags_with_value', rust_str_list(m2.group(1))))
    L.append(coq_strlist_def('policy_flags_no_value', rust_str_list(m3.group(1))))
    # (C20) the CLI's own global flags, from the clap derive on `struct Cli` in src/cli/args.rs:
    # `#[arg(long, ... global = true)] pub(crate) name: T` — T = bool takes no value, anything else does
    cli_args = read(repo, 'src/cli/args.rs')
    mcli = re.search(r'pub struct Cli \{(.*?)\n\}\n', cli_args, re.S)
    if not mcli:
        die('struct Cli in src/cli/args.rs')
    gv, gb = [], []
    for am, name, ty in re.findall(r'#\[arg\(([^\]]*?)\)\]\s*pub(?:\(crate\))?\s+(\w+)\s*:\s*([^,\n]+),', mcli.group(1)):
        if not re.search(r'\bglobal\s*=\s*true\b', am) or not re.search(r'\blong\b', am):
            continue
        flag = '--' + name.replace('_', '-')
        (gb if ty.strip() == 'bool' else gv).append(flag)
    if not gv or not gb:
        die('global flags of struct Cli in src/cli/args.rs')
    L.append(coq_strlist_def('cli_global_value_flags', gv))
    L.append(coq_strlist_def('cli_global_bool_flags', gb))
    # (C20) the shell control characters split off by shell_words (absent before the F9b fix: empty list)
    m = re.search(r'fn shell_words\(line: &str\) -> Vec<String> \{.*?if matches!\(c,\s*((?:\'[^\']\'\s*\|?\s*)+)\)', pol, re.S)
    ops = re.findall(r"'(.)'", m.group(1)) if m else []
    L.append('Definition policy_op_chars : list N := [%s]. (* %s *)' % (';'.join(str(ord(c)) for c in ops), ' '.join(ops).replace('*)', '* )')))
    # (C20) the three users of the one mutating set: lint, help --json, and the guard's own registration check
    lint_const = bool(re.search(r'fn lint_claude_command_dangerous_defaults\(.*?crate::cli::util::MUTATING_COMMAND_IDS', pol, re.S))
    helpsrc = read(repo, 'src/cli/commands/help.rs')
    help_const = bool(re.search(r'"mutating_commands"\s*:\s*super::super::util::MUTATING_COMMAND_IDS', helpsrc)) and \
        bool(re.search(r'mutating:\s*super::super::util::MUTATING_COMMAND_IDS\s*\.contains\(', helpsrc))
    guard_const = bool(re.search(r'fn require_yes_for_json_mutation\(.*?debug_assert!\(\s*MUTATING_COMMAND_IDS\.contains\(&command_id\)', util, re.S))
    L.append('Definition lint_uses_mutating_const : bool := %s.' % ('true' if lint_const else 'false'))
    L.append('Definition help_uses_mutating_const : bool := %s.' % ('true' if help_const else 'false'))
    L.append('Definition guard_checks_mutating_const : bool := %s.' % ('true' if guard_const else 'false'))

    # error codes in source and registry in docs
    src_codes = set()
    for dp, dns, fns in os.walk(os.path.join(repo, 'src')):
        for fn in fns:
            if fn.endswith('.rs'):
                s = open(os.path.join(dp, fn), encoding='utf-8').read()
                src_codes.update(re.findall(r'"(E_[A-Z][A-Z0-9_]+)"', s))
    if len(src_codes) < 10:
        die('E_* literals in src')
    L.append(coq_strlist_def('source_error_codes', sorted(src_codes)))
    doc = read(repo, 'docs/reference/error-codes.md')
    reg = sorted(set(re.findall(r'^#+\s+`?(E_[A-Z][A-Z0-9_]+)`?', doc, re.M)))
    if len(reg) < 10:
        reg = sorted(set(re.findall(r'\b(E_[A-Z][A-Z0-9_]+)\b', doc)))
    if len(reg) < 10:
        die('registry headings in docs/reference/error-codes.md')
    L.append(coq_strlist_def('registry_error_codes', reg))

    # default guidance table (user_error.rs)
    ue = read(repo, 'src/user_error.rs')
    m = re.search(r'fn add_default_reason_code_and_next_actions(.*?)\n\}\n', ue, re.S)
    guid = []
    if m:
        for gm in re.finditer(r'"(E_[A-Z0-9_]+)"\s*=>\s*\(\s*"([a-z0-9_]+)"\s*,\s*serde_json::json!\(\[(.*?)\]\)', m.group(1), re.S):
            guid.append((gm.group(1), gm.group(2), rust_str_list(gm.group(3))))
    if len(guid) < 5:
        die('add_default_reason_code_and_next_actions table in src/user_error.rs')
    L.append('Definition default_guidance : list (str * (str * list str)) :=\n  [%s].' %
             ';\n   '.join('(%s, (%s, [%s])) (* %s *)' % (codes(c), codes(r), '; '.join(codes(a) for a in acts), c) for c, r, acts in guid))

    # ---- contract layer (C08/C09/C10) ----
    # commands that do not support --json (help.rs supports_json_for_command exclusions)
    hp = read(repo, 'src/cli/commands/help.rs')
    m = re.search(r'fn supports_json_for_command\(command_id: &str\) -> bool \{\s*!matches!\(command_id,\s*(.*?)\)\s*\}', hp, re.S)
    if not m:
        die('supports_json_for_command in src/cli/commands/help.rs')
    L.append(coq_strlist_def('json_unsupported_ids', rust_str_list(m.group(1))))

    # MCP tools: (name, read_only) from tool_registry.rs; command_id of each mutating tool from its own file
    treg = read(repo, 'src/mcp/tools/tool_registry.rs')
    tools = re.findall(r'tool\(\s*"(\w+)"\s*,\s*"(?:[^"\\]|\\.)*"\s*,\s*tool_input_schema::<\w+>\(\)\s*,\s*(true|false)\s*,?\s*\)', treg)
    if len(tools) < 8:
        die('tool(...) entries in src/mcp/tools/tool_registry.rs (found %d)' % len(tools))
    mut_tools = []
    for name, ro in tools:
        if ro == 'true':
            continue
        tsrc = read(repo, 'src/mcp/tools/%s.rs' % name)
        ids = set(re.findall(r'command_id:\s*"([^"]+)"', tsrc))
        if len(ids) != 1:
            die('single command_id literal in src/mcp/tools/%s.rs (found %r)' % (name, sorted(ids)))
        mut_tools.append((name, ids.pop()))
    if not mut_tools:
        die('no mutating MCP tools in tool_registry.rs')
    L.append('Definition mcp_mutating_tools : list (str * str) :=\n  [%s].' %
             ';\n   '.join('(%s, %s) (* %s -> %s *)' % (codes(a), codes(b), a, b) for a, b in mut_tools))
    L.append(coq_strlist_def('mcp_readonly_tools', [n for n, ro in tools if ro == 'true']))

    # guidance values documented in docs/SPEC.md ("currently: ..." and the git refusal list)
    spec = read(repo, 'docs/SPEC.md')
    sg = {}
    for gm in re.finditer(r'`reason_code` \(currently: `([a-z0-9_]+)`\)\s*\n\s*- `next_actions` \(currently: `\[(.*?)\]`\)', spec):
        before = re.findall(r'\bE_[A-Z][A-Z0-9_]+\b', spec[max(0, gm.start() - 700):gm.start()])
        if not before:
            die('error code preceding the SPEC.md guidance value %s' % gm.group(1))
        sg[before[-1]] = (gm.group(1), rust_str_list(gm.group(2)))
    for gm in re.finditer(r'`(E_[A-Z][A-Z0-9_]+)`: `reason_code`=`([a-z0-9_]+)`, `next_actions`=`\[(.*?)\]`', spec):
        sg[gm.group(1)] = (gm.group(2), rust_str_list(gm.group(3)))
    if len(sg) < 8:
        die('guidance values ("currently: ...") in docs/SPEC.md (found %d)' % len(sg))
    L.append('Definition spec_guidance : list (str * (str * list str)) :=\n  [%s].' %
             ';\n   '.join('(%s, (%s, [%s])) (* %s *)' % (codes(c), codes(sg[c][0]), '; '.join(codes(a) for a in sg[c][1]), c) for c in sorted(sg)))

    # codes whose registry entry documents the additive guidance fields {reason_code, next_actions}
    sections = re.split(r'^###\s+', doc, flags=re.M)[1:]
    with_guid = []
    for sec in sections:
        hm = re.match(r'`?(E_[A-Z][A-Z0-9_]+)`?', sec)
        if hm and re.search(r'guidance fields: `\{reason_code, next_actions\}`', sec):
            with_guid.append(hm.group(1))
    if len(with_guid) < 10:
        die('"guidance fields: {reason_code, next_actions}" lines in docs/reference/error-codes.md')
    L.append(coq_strlist_def('registry_guidance_codes', sorted(with_guid)))

    # envelope schema version (output.rs)
    outp = read(repo, 'src/output.rs')
    L.append('Definition json_schema_version : N := %d.' % const_int(outp, 'JSON_SCHEMA_VERSION', 'src/output.rs'))

    L.append('')
    txt = '\n'.join(L) + '\n'
    old = None
    try:
        old = open(out, encoding='utf-8').read()
    except OSError:
        pass
    if old != txt:
        with open(out, 'w', encoding='utf-8') as f:
            f.write(txt)
        print('gen_tables: wrote', out)
    else:
        print('gen_tables: unchanged')

if __name__ == '__main__':
    main()
