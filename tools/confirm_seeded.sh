#!/bin/bash
# confirm_seeded.sh <dir with patch.diff + seeded_*.rs>  — independent confirmation in a scratch worktree:
# (a) patch applies to /repo HEAD and builds, (b) demo FAILS with it, (c) the existing suite passes with it,
# (d) demo PASSES without it.  Prints one summary line; full logs in /tmp/mutconfirm/logs.
D=$(readlink -f "$1"); NAME=$(basename $D); W=/tmp/mutconfirm; mkdir -p $W/logs
exec 7>$W/.lock; flock 7
export CARGO_TARGET_DIR=$W/target CARGO_NET_OFFLINE=true
if [ ! -d $W/wt ]; then git -C /repo worktree add -q --detach $W/wt HEAD || exit 2; fi
cd $W/wt && git checkout -q --detach $(git -C /repo rev-parse HEAD) && git checkout -q -- . && git clean -fdq
DEMO=$(ls $D | grep -E '^seeded_.*\.rs$' | head -1); T=$(basename $DEMO .rs)
git apply $D/patch.diff || { echo "$NAME: PATCH-DOES-NOT-APPLY"; exit 1; }
cp $D/$DEMO tests/$DEMO
res() { grep -E "^test result" | awk '{p+=$4; f+=$6} END {print p" passed "f" failed"}'; }
[ -f $D/demo_env ] && source $D/demo_env
A=$(cargo test --offline --test $T 2>&1 | tee $W/logs/$NAME.demo_with.log | res)
mv tests/$DEMO $W/$DEMO.hold
B=$(env -u RUSTFLAGS cargo test --workspace --no-fail-fast --offline 2>&1 | tee $W/logs/$NAME.suite_with.log | res)
mv $W/$DEMO.hold tests/$DEMO
git apply -R $D/patch.diff
C=$(cargo test --offline --test $T 2>&1 | tee $W/logs/$NAME.demo_without.log | res)
git checkout -q -- . ; git clean -fdq
echo "$NAME: demo_with_change=[$A] suite_with_change=[$B] demo_without_change=[$C]"
