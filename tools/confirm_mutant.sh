#!/bin/bash
# confirm_mutant.sh <ID> [worktree]  — re-check a seeded change in its scratch worktree:
# (a) existing suite passes with it, (b) demo fails with it, (c) demo passes without it.
ID=$1; WT=${2:-/tmp/mut/$ID}; OUT=$WT/OUT
export CARGO_TARGET_DIR=$WT/target CARGO_NET_OFFLINE=true
cd $WT || exit 2
DEMO=$(ls $OUT | grep -E '^seeded_.*\.(rs|sh|py)$' | head -1)
T=$(basename $DEMO .rs)
res() { grep -E "^test result" | awk '{p+=$4; f+=$6} END {print p" passed "f" failed"}'; }
echo "== with change: demo"; cargo test --offline --test $T 2>&1 | res
echo "== with change: full suite (demo excluded)"; mv tests/$DEMO /tmp/$DEMO.$ID; cargo test --workspace --no-fail-fast --offline 2>&1 | res; mv /tmp/$DEMO.$ID tests/$DEMO
echo "== without change: demo"; git apply -R $OUT/patch.diff && cargo test --offline --test $T 2>&1 | res; git apply $OUT/patch.diff
echo "== diff stat"; git diff --stat -- src
