#!/bin/bash
# try_mutant.sh <seeded-name> <property> [tier]  — apply the seeded patch to /repo, run the check, undo.
NAME=$1; PROP=$2; TIER=${3:-quick}
cd /verif
git -C /repo diff --quiet || { echo "/repo not clean"; exit 2; }
git -C /repo apply /verif/seeded/$NAME/patch.diff || { echo "patch does not apply"; exit 2; }
./check $PROP --tier $TIER > /tmp/try_$NAME.out 2> /tmp/try_$NAME.err; rc=$?
git -C /repo checkout -- . 
git -C /verif checkout -- evidence coq/Gen/Tables.v 2>/dev/null
echo "rc=$rc"; grep -c "^VIOLATION" /tmp/try_$NAME.out; grep "^VIOLATION" /tmp/try_$NAME.out | head -3; grep "VIOLATION candidate" /tmp/try_$NAME.err | sed 's/.*candidate: //' | cut -c1-200 | sort | uniq -c | head -5
