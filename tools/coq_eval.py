#!/usr/bin/env python3
"""coq_eval.py <replay.json> '<Coq expression over c>'  — evaluate an expression on the recorded case term (diagnostics)"""
import sys, json, os, subprocess, tempfile
d = json.load(open(sys.argv[1]))
expr = sys.argv[2]
wd = tempfile.mkdtemp(prefix='coqeval-', dir='/verif/.build/scratch')
fn = os.path.join(wd, 'q.v')
with open(fn, 'w') as f:
    f.write(d['coq_header'] + '\nDefinition c : %s := %s.\nEval vm_compute in (%s).\n' % (d['coq_type'], d['coq_term'], expr))
p = subprocess.run(['coqc', '-noglob', '-Q', '/verif/coq', 'AP', fn], capture_output=True, text=True)
print(p.stdout[-6000:], p.stderr[-3000:])
