#!/bin/bash
# save_mutant.sh <ID> [name]  — copy a confirmed seeded change from its scratch worktree to /verif/seeded/<name>/
ID=$1; NAME=${2:-$ID}; WT=/tmp/mut/$ID; D=/verif/seeded/$NAME
mkdir -p $D && cp $WT/OUT/patch.diff $D/ && cp $WT/OUT/seeded_* $D/ 2>/dev/null; cp $WT/OUT/meta.json $D/meta.agent.json
echo saved $D
