#!/usr/bin/env python3
"""Regenerate MANIFEST.json from the claims table below."""
import json, subprocess
props = [json.loads(l) for l in open('/verif/properties.jsonl')]
TECH = "Rocq/Coq proof over hand-written model + vm_compute correspondence check"
import glob, os
CLAIMS = {}
READY = open('/verif/claims/READY').read().split()   # ids whose check the lead has verified
for f in sorted(glob.glob('/verif/claims/C*.json')):
    if os.path.basename(f)[:-5] not in READY: continue
    d = json.load(open(f)); CLAIMS[os.path.basename(f)[:-5]] = (d['text'], d['note'])
checks = []
for p in props:
    if p['id'] in CLAIMS:
        text, note = CLAIMS[p['id']]
        checks.append({"property_id": p['id'], "quick_cmd": "./check %s --tier quick" % p['id'],
                       "thorough_cmd": "./check %s --tier thorough" % p['id'],
                       "evidence_file": "/verif/evidence/%s.json" % p['id'],
                       "replay_cmd_template": "./check %s --replay {path}" % p['id'],
                       "engine": "coq-proof+correspondence",
                       "level_claimed": {"category": "proof", "text": text, "design_ref": "§" + p['id']},
                       "level_note": note, "technique": TECH})
commits = subprocess.run(['git', '-C', '/repo', 'log', '--format=%h %s'], capture_output=True, text=True).stdout.split('\n')
hook_commits = [c.split()[0] for c in commits if c and 'verif hooks' in c]
m = {"version": 1, "setup_cmd": "./setup.sh",
     "hooks": {"guard": "agentpack_verif",
               "enable": "RUSTFLAGS=\"--cfg agentpack_verif\" cargo build --offline (target dir /verif/.build/target)",
               "baseline_off_cmd": "cd /repo && cargo test --workspace --no-fail-fast --offline",
               "source_commits": hook_commits, "add_only": True},
     "engines": [{"name": "coq-proof+correspondence", "path": "/verif/check", "serves_properties": sorted(CLAIMS),
                  "kind_free_text": "Rocq (Coq 8.16.1) theorems about a hand-written Gallina model of agentpack's decision core; correspondence check evaluates the model with vm_compute on the inputs the real binary / library ran; Gen/Tables.v regenerated from source each run"}],
     "checks": checks,
     "not_applicable": [{"property_id": p['id'], "reason": "not yet built (work in progress; the technique applies, see DESIGN.md §" + p['id'] + ")"} for p in props if p['id'] not in CLAIMS],
     "notes": "See DESIGN.md. ./check <Cxx> rebuilds /repo's working tree with --cfg agentpack_verif, regenerates coq/Gen/Tables.v from source, rebuilds the property's Coq closure, audits assumptions, then runs the correspondence streams. Known findings: known_findings.json."}
json.dump(m, open('/verif/MANIFEST.json', 'w'), indent=1)
print('claimed', sorted(CLAIMS))
