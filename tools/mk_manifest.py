#!/usr/bin/env python3
"""Regenerate MANIFEST.json from the claims table below."""
import json, subprocess
props = [json.loads(l) for l in open('/verif/properties.jsonl')]
TECH = "Rocq/Coq proof over hand-written model + vm_compute correspondence check"
CLAIMS = {
 'C19': ("Coq theorems (closed under the global context) over the Gallina model of the log reader, tally, cmp_failure_rate (u128 wrap written out and proved unreachable) and ranking (unique sorted permutation), plus the append-interleaving algebra; model tied to the code by differential runs of score --json / the cmp hook / parallel record processes. Partial: atomicity of one O_APPEND write is the kernel's, assumed and audited by strace.",
         "Trusted: Coq kernel + vm_compute; hand-written model validated by sampling; JSON parsing not modelled (parse result by construction); harness; gen_tables.py; O_APPEND atomicity."),
 'C11': ("Coq theorems over the Gallina model of the confirm-token store and the deploy/deploy_apply tool state machine: for every operation sequence a successful deploy_apply has yes, no dry_run and a token that is live (issued by this instance, unconsumed), fresh (< TTL from Gen.Tables), bound to the same arguments and to the recomputed plan hash; exact decision (iff) and refusal-code table. Tied to the code by the hook-exposed store (explicit clocks) and a live MCP server with clock skew, mutations, restarts; concurrent pairs probed on the binary. Partial: scheduling is outside the sequential model.",
         "Trusted: Coq kernel + vm_compute; hand-written model; gen_tables.py (TTL); hooks mcp::verif_token and verif_hooks::skew; Python MCP client; premises: SHA-256 injective on plan data, random tokens distinct."),
}
checks = []
for p in props:
    if p['id'] in CLAIMS:
        text, note = CLAIMS[p['id']]
        checks.append({"property_id": p['id'], "quick_cmd": "./check %s --tier quick" % p['id'],
                       "thorough_cmd": "./check %s --tier thorough" % p['id'],
                       "evidence_file": "/verif/evidence/%s.json" % p['id'],
                       "replay_cmd_template": "./check %s --replay {path}" % p['id'],
                       "engine": "coq-proof+correspondence",
                       "level_claimed": {"category": "proof", "text": text, "design_ref": "§" + p['id']},
                       "level_note": note, "technique": TECH})
commits = subprocess.run(['git', '-C', '/repo', 'log', '--format=%h %s'], capture_output=True, text=True).stdout.split('\n')
hook_commits = [c.split()[0] for c in commits if c and 'verif hooks' in c]
m = {"version": 1, "setup_cmd": "./setup.sh",
     "hooks": {"guard": "agentpack_verif",
               "enable": "RUSTFLAGS=\"--cfg agentpack_verif\" cargo build --offline (target dir /verif/.build/target)",
               "baseline_off_cmd": "cd /repo && cargo test --workspace --no-fail-fast --offline",
               "source_commits": hook_commits, "add_only": True},
     "engines": [{"name": "coq-proof+correspondence", "path": "/verif/check", "serves_properties": sorted(CLAIMS),
                  "kind_free_text": "Rocq (Coq 8.16.1) theorems about a hand-written Gallina model of agentpack's decision core; correspondence check evaluates the model with vm_compute on the inputs the real binary / library ran; Gen/Tables.v regenerated from source each run"}],
     "checks": checks,
     "not_applicable": [{"property_id": p['id'], "reason": "not yet built (work in progress; the technique applies, see DESIGN.md §" + p['id'] + ")"} for p in props if p['id'] not in CLAIMS],
     "notes": "See DESIGN.md. ./check <Cxx> rebuilds /repo's working tree with --cfg agentpack_verif, regenerates coq/Gen/Tables.v from source, rebuilds the property's Coq closure, audits assumptions, then runs the correspondence streams. Known findings: known_findings.json."}
json.dump(m, open('/verif/MANIFEST.json', 'w'), indent=1)
print('claimed', sorted(CLAIMS))
