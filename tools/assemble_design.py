#!/usr/bin/env python3
"""Rebuild the tail of DESIGN.md (§11 as built, §12 corrections, appendices) from design_notes/."""
import glob, os, re
p = '/verif/DESIGN.md'
s = open(p).read()
marker = '\n<!-- AS-BUILT-BEGIN -->\n'
if marker in s:
    s = s[:s.index(marker)]
out = s.rstrip('\n') + '\n' + marker
out += open('/verif/design_notes/_AS_BUILT.md').read()
out += open('/verif/design_notes/_CORRECTIONS.md').read()
out += '\n---------------------------------------------------------------------------------------------------\n\n## Appendices — builder notes per property\n'
for f in sorted(glob.glob('/verif/design_notes/C*.md')):
    pid = os.path.basename(f)[:-3]
    body = open(f).read()
    body = re.sub(r'^# ', '#### ', body, flags=re.M)
    body = re.sub(r'^## ', '#### ', body, flags=re.M)
    out += '\n### Appendix %s\n\n' % pid + body.strip('\n') + '\n'
open(p, 'w').write(out)
print('DESIGN.md:', len(out.split('\n')), 'lines')
