#!/bin/bash
# mutlab.sh <patch-file> <property> [tier]
# Run a check against a MUTATED copy of /repo without touching /repo or /verif:
#   /tmp/mutlab/repo  = git worktree of /repo HEAD + the patch
#   /tmp/mutlab/verif = rsync copy of /verif's working tree (own .build, own coq objects)
# Output: /tmp/mutlab/out/<property>.<patchname>.{out,err};  prints rc and the VIOLATION lines.
PATCH=$(readlink -f "$1"); PROP=$2; TIER=${3:-quick}
LAB=/tmp/mutlab; mkdir -p $LAB/out
exec 8>$LAB/.lock; flock 8
if [ ! -d $LAB/repo ]; then git -C /repo worktree add -q --detach $LAB/repo HEAD || exit 2; fi
git -C $LAB/repo checkout -q -- . ; git -C $LAB/repo clean -fdq -e target
git -C $LAB/repo checkout -q --detach $(git -C /repo rev-parse HEAD) || exit 2
if [ -n "$PATCH" ] && [ "$1" != "none" ]; then git -C $LAB/repo apply "$PATCH" || { echo "patch does not apply"; exit 2; }; fi
rsync -a --delete --exclude .build --exclude .git --exclude replays --exclude 'coq/**/*.vo' --exclude 'coq/**/*.vos' --exclude 'coq/**/*.vok' --exclude 'coq/**/*.glob' --exclude 'coq/**/*.aux' --exclude 'coq/.mk.lock' --exclude 'coq/Makefile.coq*' --exclude 'coq/.Makefile.coq.d' /verif/ $LAB/verif/ 
sed -i "s#path = \"/repo\"#path = \"$LAB/repo\"#" $LAB/verif/harness/rs/Cargo.toml
NAME=$(basename $(dirname "$PATCH"))
cd $LAB/verif && VERIF_REPO=$LAB/repo ./check $PROP --tier $TIER > $LAB/out/$PROP.$NAME.out 2> $LAB/out/$PROP.$NAME.err; rc=$?
echo "rc=$rc"; grep -c "^VIOLATION" $LAB/out/$PROP.$NAME.out; grep "^VIOLATION\|^KNOWN" $LAB/out/$PROP.$NAME.out | head -3
grep "VIOLATION candidate" $LAB/out/$PROP.$NAME.err | sed 's/.*candidate: //' | cut -c1-220 | sort | uniq -c | sort -rn | head -5
